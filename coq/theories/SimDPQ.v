(** * SimDPQ: on a well-formed store the routines of DPQ.v (min-max heap)
    compute exactly the list-level algorithms of Abs.v on [eview s]. *)
From PQV Require Export SimPQ DPQ.

Section SimDPQ.
Context {I P : Type}.
Variable keq : I -> I -> bool.
Variable hash : I -> N.
Variable ple : P -> P -> bool.

Notation store := (store I P).
Notation R := (res store).
Notation pr := (snd : I * P -> P).

(* TEMPORARY: to be replaced by the theorems of StoreProofs.v *)
Hypothesis eview_lookup : @eview_lookup_stmt I P keq.
Hypothesis eview_length : @eview_length_stmt I P keq.
Hypothesis prio_at_ok : @prio_at_ok_stmt I P keq.
Hypothesis swap_ok : @swap_ok_stmt I P keq.
Hypothesis swap_remove_ok : @swap_remove_ok_stmt I P keq.
Hypothesis remove_ok : @remove_ok_stmt I P keq hash.
Hypothesis set_entry_ok : @set_entry_ok_stmt I P keq hash.
Hypothesis push_entry_ok : @push_entry_ok_stmt I P keq hash.
Hypothesis identity_ok : @identity_ok_stmt I P keq.
Hypothesis hole_move_ok : @hole_move_ok_stmt I P keq.
Hypothesis get_index_of_spec : @get_index_of_spec_stmt I P keq hash.

Notation WF := (WF keq).
Notation sim := (sim keq).

Local Notation eview_some' := (eview_some keq eview_length).
Local Notation eview_lt' := (eview_lt keq eview_length).
Local Notation eview_fill_pos' := (eview_fill_pos keq eview_lookup).
Local Notation sim_intro' := (sim_intro keq).

Ltac splits := repeat match goal with |- _ /\ _ => split end.
Ltac bind := cbn [mbind res_bind rbind].

(** record bookkeeping *)
Lemma set_ticks_0 (s : store) : set_ticks s (ticks s + 0) = s.
Proof. destruct s; unfold set_ticks; cbn; f_equal; lia. Qed.
Lemma set_ticks_add (s : store) a b c :
  c = a + b -> set_ticks (set_ticks s (ticks s + a)) (ticks (set_ticks s (ticks s + a)) + b)
               = set_ticks s (ticks s + c).
Proof. intros ->. destruct s; unfold set_ticks; cbn; f_equal; lia. Qed.
Lemma set_ticks_S (s : store) b c :
  c = S b -> set_ticks (set_ticks s (S (ticks s))) (ticks (set_ticks s (S (ticks s))) + b)
               = set_ticks s (ticks s + c).
Proof. intros ->. destruct s; unfold set_ticks; cbn; f_equal; lia. Qed.

(** ** 1. candidates *)

Lemma heap_lookup_lt (s : store) p :
  WF s -> is_Some (heap s !! p) <-> p < ssize s.
Proof.
  intros (_ & (Hh & _) & _). rewrite lookup_lt_is_Some, Hh. done.
Qed.

Lemma take_present_sim (s : store) (l : list nat) :
  WF s -> take_present s l = atake_present (eview s) l.
Proof.
  intros HWF. induction l as [|p l IH]; [done|].
  cbn [take_present atake_present]. rewrite IH.
  destruct (decide (p < ssize s)) as [Hp|Hp].
  - destruct (eview_some' s p HWF Hp) as [x ->].
    destruct (proj2 (heap_lookup_lt s p HWF) Hp) as [j ->]. done.
  - assert (heap s !! p = None) as ->.
    { apply eq_None_not_Some. rewrite heap_lookup_lt by done. done. }
    assert (eview s !! p = None) as ->; [|done].
    apply lookup_ge_None. rewrite (eview_length s HWF). lia.
Qed.

Lemma candidates_sim (s : store) i :
  WF s -> candidates s i = acands (eview s) i.
Proof. intros HWF. unfold candidates, acands. by apply take_present_sim. Qed.

Lemma atake_present_lt (l : list (I * P)) ps :
  Forall (fun p => p < length l) (atake_present l ps).
Proof.
  induction ps as [|p ps IH]; cbn [atake_present]; [constructor|].
  destruct (l !! p) eqn:Hp; [|constructor].
  constructor; [by eapply lookup_lt_Some|done].
Qed.

Lemma atake_present_sub (l : list (I * P)) ps :
  atake_present l ps ⊆ ps.
Proof.
  induction ps as [|p ps IH]; cbn [atake_present]; [done|].
  destruct (l !! p); [|apply list_subseteq_nil].
  intros x [->|Hx]%elem_of_cons; [left|right; by apply IH].
Qed.

(** ** 2. pick_extreme *)

Lemma pick_min_from_sim (l : list nat) : forall (s : store) cur xc,
  WF s -> fuse s = None -> Forall (fun p => p < ssize s) l ->
  pick_min_from ple s cur xc.2 l =
    Ok ((apick_min_from pr ple (eview s) cur xc l).1,
        set_ticks s (ticks s + (apick_min_from pr ple (eview s) cur xc l).2)).
Proof.
  induction l as [|y l IH]; intros s cur xc HWF Hf Hl;
    cbn [pick_min_from apick_min_from fst snd].
  { by rewrite set_ticks_0. }
  apply Forall_cons in Hl as [Hy Hl].
  destruct (eview_some' s y HWF Hy) as [xy Hxy]. rewrite Hxy.
  rewrite (prio_at_ok s y xy HWF Hxy). bind.
  rewrite cmp_lt_nofuse by done. bind.
  change (plt ple xy.2 xc.2) with (alt ple xy.2 xc.2).
  set (s1 := set_ticks s (S (ticks s))).
  assert (HWF1 : WF s1) by exact HWF.
  change (eview s) with (eview s1).
  destruct (alt ple xy.2 xc.2).
  - rewrite (IH s1 y xy HWF1 Hf Hl).
    destruct (apick_min_from pr ple (eview s1) y xy l) as [r t]. cbn [fst snd].
    do 2 f_equal. by apply set_ticks_S.
  - rewrite (IH s1 cur xc HWF1 Hf Hl).
    destruct (apick_min_from pr ple (eview s1) cur xc l) as [r t]. cbn [fst snd].
    do 2 f_equal. by apply set_ticks_S.
Qed.

Lemma pick_max_from_sim (l : list nat) : forall (s : store) cur xc,
  WF s -> fuse s = None -> Forall (fun p => p < ssize s) l ->
  pick_max_from ple s cur xc.2 l =
    Ok ((apick_max_from pr ple (eview s) cur xc l).1,
        set_ticks s (ticks s + (apick_max_from pr ple (eview s) cur xc l).2)).
Proof.
  induction l as [|y l IH]; intros s cur xc HWF Hf Hl;
    cbn [pick_max_from apick_max_from fst snd].
  { by rewrite set_ticks_0. }
  apply Forall_cons in Hl as [Hy Hl].
  destruct (eview_some' s y HWF Hy) as [xy Hxy]. rewrite Hxy.
  rewrite (prio_at_ok s y xy HWF Hxy). bind.
  rewrite cmp_lt_nofuse by done. bind.
  change (plt ple xy.2 xc.2) with (alt ple xy.2 xc.2).
  set (s1 := set_ticks s (S (ticks s))).
  assert (HWF1 : WF s1) by exact HWF.
  change (eview s) with (eview s1).
  destruct (alt ple xy.2 xc.2).
  - rewrite (IH s1 cur xc HWF1 Hf Hl).
    destruct (apick_max_from pr ple (eview s1) cur xc l) as [r t]. cbn [fst snd].
    do 2 f_equal. by apply set_ticks_S.
  - rewrite (IH s1 y xy HWF1 Hf Hl).
    destruct (apick_max_from pr ple (eview s1) y xy l) as [r t]. cbn [fst snd].
    do 2 f_equal. by apply set_ticks_S.
Qed.

(** the position picked is one of the candidates (or the start) *)
Lemma apick_min_from_in (l : list (I * P)) ps : forall cur xc,
  (apick_min_from pr ple l cur xc ps).1 = cur \/ (apick_min_from pr ple l cur xc ps).1 ∈ ps.
Proof.
  induction ps as [|y ps IH]; intros cur xc; cbn [apick_min_from]; [by left|].
  destruct (l !! y) as [xy|]; [|by left].
  destruct (alt ple xy.2 xc.2).
  - destruct (IH y xy) as [H|H]; destruct (apick_min_from pr ple l y xy ps); cbn [fst] in *;
      right; [subst; left|by right].
  - destruct (IH cur xc) as [H|H]; destruct (apick_min_from pr ple l cur xc ps); cbn [fst] in *;
      [by left|right; by right].
Qed.
Lemma apick_max_from_in (l : list (I * P)) ps : forall cur xc,
  (apick_max_from pr ple l cur xc ps).1 = cur \/ (apick_max_from pr ple l cur xc ps).1 ∈ ps.
Proof.
  induction ps as [|y ps IH]; intros cur xc; cbn [apick_max_from]; [by left|].
  destruct (l !! y) as [xy|]; [|by left].
  destruct (alt ple xy.2 xc.2).
  - destruct (IH cur xc) as [H|H]; destruct (apick_max_from pr ple l cur xc ps); cbn [fst] in *;
      [by left|right; by right].
  - destruct (IH y xy) as [H|H]; destruct (apick_max_from pr ple l y xy ps); cbn [fst] in *;
      right; [subst; left|by right].
Qed.

(** what [apick_extreme] returns: a present child or grandchild *)
Lemma apick_extreme_range (mn : bool) (l : list (I * P)) i c t :
  apick_extreme pr ple mn l i = Some (c, t) ->
  c < length l /\
  (c = left i \/ c = right i \/ c = left (left i) \/ c = right (left i) \/
   c = left (right i) \/ c = right (right i)).
Proof.
  unfold apick_extreme. intros H.
  pose proof (atake_present_lt l [left i; right i; left (left i); right (left i); left (right i); right (right i)]) as Hlt.
  pose proof (atake_present_sub l [left i; right i; left (left i); right (left i); left (right i); right (right i)]) as Hsub.
  change (atake_present l _) with (acands l i) in Hlt, Hsub.
  destruct (acands l i) as [|c0 cs]; [done|].
  destruct (l !! c0) as [x0|]; [|done]. cbn [mbind option_bind] in H.
  assert (Hc : c ∈ c0 :: cs).
  { injection H as H. destruct mn.
    - destruct (apick_min_from_in l cs c0 x0) as [H'|H']; rewrite H in H'; cbn [fst] in H';
        [subst; left|by right].
    - destruct (apick_max_from_in l cs c0 x0) as [H'|H']; rewrite H in H'; cbn [fst] in H';
        [subst; left|by right]. }
  split.
  - rewrite Forall_forall in Hlt. by apply Hlt.
  - apply Hsub in Hc. set_solver.
Qed.

Lemma pick_extreme_sim (mn : bool) (s : store) i :
  WF s -> fuse s = None -> left i < ssize s ->
  exists c t, apick_extreme pr ple mn (eview s) i = Some (c, t) /\
    pick_extreme ple mn s i = Ok (c, set_ticks s (ticks s + t)).
Proof.
  intros HWF Hf Hl. unfold pick_extreme, apick_extreme.
  rewrite candidates_sim by done.
  pose proof (atake_present_lt (eview s) [left i; right i; left (left i); right (left i); left (right i); right (right i)]) as Hlt.
  change (atake_present (eview s) _) with (acands (eview s) i) in Hlt.
  rewrite (eview_length s HWF) in Hlt.
  destruct (acands (eview s) i) as [|c0 cs] eqn:Hc.
  { exfalso. unfold acands in Hc. cbn [atake_present] in Hc.
    destruct (eview_some' s (left i) HWF Hl) as [x Hx]. rewrite Hx in Hc. done. }
  apply Forall_cons in Hlt as [H0 Hcs].
  destruct (eview_some' s c0 HWF H0) as [x0 Hx0]. rewrite Hx0.
  rewrite (prio_at_ok s c0 x0 HWF Hx0). bind. cbn [option_bind].
  destruct mn.
  - rewrite (pick_min_from_sim cs s c0 x0 HWF Hf Hcs).
    destruct (apick_min_from pr ple (eview s) c0 x0 cs) as [c t]. by exists c, t.
  - rewrite (pick_max_from_sim cs s c0 x0 HWF Hf Hcs).
    destruct (apick_max_from pr ple (eview s) c0 x0 cs) as [c t]. by exists c, t.
Qed.

(** ** 3. trickle (heapify_min / heapify_max) *)

Lemma cmp_dir_nofuse (mn : bool) (s : store) a b :
  fuse s = None ->
  cmp_dir ple mn s a b = Ok (alt_dir ple mn a b, set_ticks s (S (ticks s))).
Proof.
  intros Hf. unfold cmp_dir, alt_dir. destruct mn; rewrite cmp_lt_nofuse by done; reflexivity.
Qed.

Lemma trickle_sim (mn : bool) (fuel : nat) : forall (s : store) i,
  WF s -> fuse s = None -> 2 <= ssize s -> ssize s - i < fuel ->
  sim s (trickle ple mn fuel s i)
      (atrickle pr ple mn fuel (eview s) i).1 (atrickle pr ple mn fuel (eview s) i).2.
Proof.
  induction fuel as [|fuel IH]; intros s i HWF Hf H2 Hfuel; [lia|].
  cbn [trickle atrickle]. rewrite (eview_length s HWF).
  assert (Htop : par (ssize s - 1) = (ssize s - 2) / 2) by (unfold par; f_equal; lia).
  rewrite Htop.
  destruct (ssize s) as [|[|n]] eqn:Hsz; [lia|lia|].
  cbn [sub1 parent mbind res_bind rbind]. replace (S (S n) - 2) with n by lia.
  destruct (decide (i <= n / 2)) as [Hi|Hi].
  2:{ cbn [fst snd]. apply (sim_intro' s s); try done; lia. }
  assert (Hl : left i < ssize s).
  { pose proof (Nat.mul_div_le n 2). unfold left. lia. }
  assert (His : i < ssize s) by (unfold left in Hl; lia).
  destruct (pick_extreme_sim mn s i HWF Hf Hl) as (c & t0 & Hab & Hco).
  rewrite Hab, Hco. bind.
  destruct (apick_extreme_range _ _ _ _ _ Hab) as [Hc Hcr].
  rewrite (eview_length s HWF) in Hc.
  assert (Hic : i < c) by (unfold left, right in Hcr; lia).
  set (s1 := set_ticks s (ticks s + t0)).
  assert (HWF1 : WF s1) by exact HWF.
  destruct (eview_some' s c HWF Hc) as [xc Hxc].
  destruct (eview_some' s i HWF His) as [xi Hxi].
  rewrite Hxc, Hxi.
  rewrite (prio_at_ok s1 c xc HWF1 Hxc). bind.
  rewrite (prio_at_ok s1 i xi HWF1 Hxi). bind.
  rewrite cmp_dir_nofuse by done. bind.
  set (s2 := set_ticks s1 (S (ticks s1))).
  assert (HWF2 : WF s2) by exact HWF.
  destruct (alt_dir ple mn xc.2 xi.2).
  2:{ cbn [fst snd]. apply (sim_intro' s s2); try done. unfold s2, s1; cbn; lia. }
  destruct (swap_ok s2 c i HWF2 ltac:(done) ltac:(done))
    as (s3 & Hsw & HWF3 & (Hm3 & Hsz3 & Htk3 & Hfu3 & Hcp3) & Hev3).
  rewrite Hsw. bind.
  change (eview s2) with (eview s) in Hev3.
  change (smap s2) with (smap s) in Hm3. change (ssize s2) with (ssize s) in Hsz3.
  change (fuse s2) with (fuse s) in Hfu3. change (cap s2) with (cap s) in Hcp3.
  assert (Htk3' : ticks s3 = ticks s + (t0 + 1)) by (rewrite Htk3; unfold s2, s1; cbn; lia).
  clearbody s1 s2. clear Htk3.
  destruct (decide (right i < c)) as [Hgc|Hgc].
  2:{ cbn [fst snd]. apply (sim_intro' s s3); try done. }
  destruct c as [|k]; [lia|].
  cbn [parent mbind res_bind rbind]. rewrite <- (par_S k).
  set (p := par (S k)). assert (Hp : p < S k) by apply par_lt.
  rewrite <- Hev3.
  destruct (eview_some' s3 (S k) HWF3 ltac:(lia)) as [yc Hyc].
  destruct (eview_some' s3 p HWF3 ltac:(lia)) as [yp Hyp].
  rewrite Hyc, Hyp.
  rewrite (prio_at_ok s3 _ yc HWF3 Hyc). bind.
  rewrite (prio_at_ok s3 _ yp HWF3 Hyp). bind.
  rewrite cmp_dir_nofuse by congruence. bind.
  set (s4 := set_ticks s3 (S (ticks s3))).
  assert (HWF4 : WF s4) by exact HWF3.
  assert (exists s5, (if alt_dir ple mn yp.2 yc.2 then swap s4 (S k) p else Ok s4) = Ok s5 /\
            WF s5 /\ frame s4 s5 /\
            eview s5 = (if alt_dir ple mn yp.2 yc.2 then aswap (eview s3) (S k) p else eview s3))
    as (s5 & Hs5 & HWF5 & (Hm5 & Hsz5 & Htk5 & Hfu5 & Hcp5) & Hev5).
  { destruct (alt_dir ple mn yp.2 yc.2).
    - destruct (swap_ok s4 (S k) p HWF4) as (s5 & ? & ? & ? & ?);
        [change (ssize s4) with (ssize s3); lia..|].
      exists s5. done.
    - exists s4. unfold frame. done. }
  rewrite Hs5. bind.
  change (smap s4) with (smap s3) in Hm5. change (ssize s4) with (ssize s3) in Hsz5.
  change (fuse s4) with (fuse s3) in Hfu5. change (cap s4) with (cap s3) in Hcp5.
  assert (Htk5' : ticks s5 = ticks s + (t0 + 2)) by (rewrite Htk5; unfold s4; cbn; lia).
  clearbody s4. clear Htk5.
  destruct (IH s5 (S k) HWF5 ltac:(congruence) ltac:(lia) ltac:(lia))
    as (s6 & Hr6 & HWF6 & Hev6 & Hm6 & Hsz6 & Htk6 & Hfu6 & Hcp6).
  rewrite Hev5 in Hev6, Htk6.
  destruct (atrickle pr ple mn fuel
              (if alt_dir ple mn yp.2 yc.2 then aswap (eview s3) (S k) p else eview s3) (S k))
    as [l3 t3]. cbn [fst snd] in *.
  apply (sim_intro' s s6); try congruence. lia.
Qed.

(** ** 4. heapify *)

Lemma dheapify_sim (s : store) i :
  WF s -> fuse s = None ->
  sim s (dheapify ple s i) (adheapify pr ple (eview s) i).1 (adheapify pr ple (eview s) i).2.
Proof.
  intros HWF Hf. unfold dheapify, adheapify. rewrite (eview_length s HWF).
  destruct (decide (ssize s <= 1)).
  - cbn [fst snd]. apply (sim_intro' s s); try done; lia.
  - change (amin_level i) with (on_min_level i).
    apply trickle_sim; try done; lia.
Qed.

End SimDPQ.
