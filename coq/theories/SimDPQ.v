(** * SimDPQ: on a well-formed store the routines of DPQ.v (min-max heap)
    compute exactly the list-level algorithms of Abs.v on [eview s]. *)
From PQV Require Export SimPQ DPQ.

Section SimDPQ.
Context {I P : Type}.
Variable keq : I -> I -> bool.
Variable hash : I -> N.
Variable ple : P -> P -> bool.

Notation store := (store I P).
Notation R := (res store).
Notation pr := (snd : I * P -> P).

(* TEMPORARY: to be replaced by the theorems of StoreProofs.v *)
Hypothesis eview_lookup : @eview_lookup_stmt I P keq.
Hypothesis eview_length : @eview_length_stmt I P keq.
Hypothesis prio_at_ok : @prio_at_ok_stmt I P keq.
Hypothesis swap_ok : @swap_ok_stmt I P keq.
Hypothesis swap_remove_ok : @swap_remove_ok_stmt I P keq.
Hypothesis remove_ok : @remove_ok_stmt I P keq hash.
Hypothesis set_entry_ok : @set_entry_ok_stmt I P keq hash.
Hypothesis push_entry_ok : @push_entry_ok_stmt I P keq hash.
Hypothesis identity_ok : @identity_ok_stmt I P keq.
Hypothesis hole_move_ok : @hole_move_ok_stmt I P keq.
Hypothesis get_index_of_spec : @get_index_of_spec_stmt I P keq hash.

Notation WF := (WF keq).
Notation sim := (sim keq).

Local Notation eview_some' := (eview_some keq eview_length).
Local Notation eview_lt' := (eview_lt keq eview_length).
Local Notation eview_fill_pos' := (eview_fill_pos keq eview_lookup).
Local Notation sim_intro' := (sim_intro keq).

Ltac splits := repeat match goal with |- _ /\ _ => split end.
Ltac bind := cbn [mbind res_bind rbind].

(** record bookkeeping *)
Lemma set_ticks_0 (s : store) : set_ticks s (ticks s + 0) = s.
Proof. destruct s; unfold set_ticks; cbn; f_equal; lia. Qed.
Lemma set_ticks_add (s : store) a b c :
  c = a + b -> set_ticks (set_ticks s (ticks s + a)) (ticks (set_ticks s (ticks s + a)) + b)
               = set_ticks s (ticks s + c).
Proof. intros ->. destruct s; unfold set_ticks; cbn; f_equal; lia. Qed.
Lemma set_ticks_S (s : store) b c :
  c = S b -> set_ticks (set_ticks s (S (ticks s))) (ticks (set_ticks s (S (ticks s))) + b)
               = set_ticks s (ticks s + c).
Proof. intros ->. destruct s; unfold set_ticks; cbn; f_equal; lia. Qed.

(** ** 1. candidates *)

Lemma heap_lookup_lt (s : store) p :
  WF s -> is_Some (heap s !! p) <-> p < ssize s.
Proof.
  intros (_ & (Hh & _) & _). rewrite lookup_lt_is_Some, Hh. done.
Qed.

Lemma take_present_sim (s : store) (l : list nat) :
  WF s -> take_present s l = atake_present (eview s) l.
Proof.
  intros HWF. induction l as [|p l IH]; [done|].
  cbn [take_present atake_present]. rewrite IH.
  destruct (decide (p < ssize s)) as [Hp|Hp].
  - destruct (eview_some' s p HWF Hp) as [x ->].
    destruct (proj2 (heap_lookup_lt s p HWF) Hp) as [j ->]. done.
  - assert (heap s !! p = None) as ->.
    { apply eq_None_not_Some. rewrite heap_lookup_lt by done. done. }
    assert (eview s !! p = None) as ->; [|done].
    apply lookup_ge_None. rewrite (eview_length s HWF). lia.
Qed.

Lemma candidates_sim (s : store) i :
  WF s -> candidates s i = acands (eview s) i.
Proof. intros HWF. unfold candidates, acands. by apply take_present_sim. Qed.

Lemma atake_present_lt (l : list (I * P)) ps :
  Forall (fun p => p < length l) (atake_present l ps).
Proof.
  induction ps as [|p ps IH]; cbn [atake_present]; [constructor|].
  destruct (l !! p) eqn:Hp; [|constructor].
  constructor; [by eapply lookup_lt_Some|done].
Qed.

Lemma atake_present_sub (l : list (I * P)) ps :
  atake_present l ps ⊆ ps.
Proof.
  induction ps as [|p ps IH]; cbn [atake_present]; [done|].
  destruct (l !! p); [|apply list_subseteq_nil].
  intros x [->|Hx]%elem_of_cons; [left|right; by apply IH].
Qed.

(** ** 2. pick_extreme *)

Lemma pick_min_from_sim (l : list nat) : forall (s : store) cur xc,
  WF s -> fuse s = None -> Forall (fun p => p < ssize s) l ->
  pick_min_from ple s cur xc.2 l =
    Ok ((apick_min_from pr ple (eview s) cur xc l).1,
        set_ticks s (ticks s + (apick_min_from pr ple (eview s) cur xc l).2)).
Proof.
  induction l as [|y l IH]; intros s cur xc HWF Hf Hl;
    cbn [pick_min_from apick_min_from fst snd].
  { by rewrite set_ticks_0. }
  apply Forall_cons in Hl as [Hy Hl].
  destruct (eview_some' s y HWF Hy) as [xy Hxy]. rewrite Hxy.
  rewrite (prio_at_ok s y xy HWF Hxy). bind.
  rewrite cmp_lt_nofuse by done. bind.
  change (plt ple xy.2 xc.2) with (alt ple xy.2 xc.2).
  set (s1 := set_ticks s (S (ticks s))).
  assert (HWF1 : WF s1) by exact HWF.
  change (eview s) with (eview s1).
  destruct (alt ple xy.2 xc.2).
  - rewrite (IH s1 y xy HWF1 Hf Hl).
    destruct (apick_min_from pr ple (eview s1) y xy l) as [r t]. cbn [fst snd].
    do 2 f_equal. by apply set_ticks_S.
  - rewrite (IH s1 cur xc HWF1 Hf Hl).
    destruct (apick_min_from pr ple (eview s1) cur xc l) as [r t]. cbn [fst snd].
    do 2 f_equal. by apply set_ticks_S.
Qed.

Lemma pick_max_from_sim (l : list nat) : forall (s : store) cur xc,
  WF s -> fuse s = None -> Forall (fun p => p < ssize s) l ->
  pick_max_from ple s cur xc.2 l =
    Ok ((apick_max_from pr ple (eview s) cur xc l).1,
        set_ticks s (ticks s + (apick_max_from pr ple (eview s) cur xc l).2)).
Proof.
  induction l as [|y l IH]; intros s cur xc HWF Hf Hl;
    cbn [pick_max_from apick_max_from fst snd].
  { by rewrite set_ticks_0. }
  apply Forall_cons in Hl as [Hy Hl].
  destruct (eview_some' s y HWF Hy) as [xy Hxy]. rewrite Hxy.
  rewrite (prio_at_ok s y xy HWF Hxy). bind.
  rewrite cmp_lt_nofuse by done. bind.
  change (plt ple xy.2 xc.2) with (alt ple xy.2 xc.2).
  set (s1 := set_ticks s (S (ticks s))).
  assert (HWF1 : WF s1) by exact HWF.
  change (eview s) with (eview s1).
  destruct (alt ple xy.2 xc.2).
  - rewrite (IH s1 cur xc HWF1 Hf Hl).
    destruct (apick_max_from pr ple (eview s1) cur xc l) as [r t]. cbn [fst snd].
    do 2 f_equal. by apply set_ticks_S.
  - rewrite (IH s1 y xy HWF1 Hf Hl).
    destruct (apick_max_from pr ple (eview s1) y xy l) as [r t]. cbn [fst snd].
    do 2 f_equal. by apply set_ticks_S.
Qed.

(** the position picked is one of the candidates (or the start) *)
Lemma apick_min_from_in (l : list (I * P)) ps : forall cur xc,
  (apick_min_from pr ple l cur xc ps).1 = cur \/ (apick_min_from pr ple l cur xc ps).1 ∈ ps.
Proof.
  induction ps as [|y ps IH]; intros cur xc; cbn [apick_min_from]; [by left|].
  destruct (l !! y) as [xy|]; [|by left].
  destruct (alt ple xy.2 xc.2).
  - destruct (IH y xy) as [H|H]; destruct (apick_min_from pr ple l y xy ps); cbn [fst] in *;
      right; [subst; left|by right].
  - destruct (IH cur xc) as [H|H]; destruct (apick_min_from pr ple l cur xc ps); cbn [fst] in *;
      [by left|right; by right].
Qed.
Lemma apick_max_from_in (l : list (I * P)) ps : forall cur xc,
  (apick_max_from pr ple l cur xc ps).1 = cur \/ (apick_max_from pr ple l cur xc ps).1 ∈ ps.
Proof.
  induction ps as [|y ps IH]; intros cur xc; cbn [apick_max_from]; [by left|].
  destruct (l !! y) as [xy|]; [|by left].
  destruct (alt ple xy.2 xc.2).
  - destruct (IH cur xc) as [H|H]; destruct (apick_max_from pr ple l cur xc ps); cbn [fst] in *;
      [by left|right; by right].
  - destruct (IH y xy) as [H|H]; destruct (apick_max_from pr ple l y xy ps); cbn [fst] in *;
      right; [subst; left|by right].
Qed.

(** what [apick_extreme] returns: a present child or grandchild *)
Lemma apick_extreme_range (mn : bool) (l : list (I * P)) i c t :
  apick_extreme pr ple mn l i = Some (c, t) ->
  c < length l /\
  (c = left i \/ c = right i \/ c = left (left i) \/ c = right (left i) \/
   c = left (right i) \/ c = right (right i)).
Proof.
  unfold apick_extreme. intros H.
  pose proof (atake_present_lt l [left i; right i; left (left i); right (left i); left (right i); right (right i)]) as Hlt.
  pose proof (atake_present_sub l [left i; right i; left (left i); right (left i); left (right i); right (right i)]) as Hsub.
  change (atake_present l _) with (acands l i) in Hlt, Hsub.
  destruct (acands l i) as [|c0 cs]; [done|].
  destruct (l !! c0) as [x0|]; [|done]. cbn [mbind option_bind] in H.
  assert (Hc : c ∈ c0 :: cs).
  { injection H as H. destruct mn.
    - destruct (apick_min_from_in l cs c0 x0) as [H'|H']; rewrite H in H'; cbn [fst] in H';
        [subst; left|by right].
    - destruct (apick_max_from_in l cs c0 x0) as [H'|H']; rewrite H in H'; cbn [fst] in H';
        [subst; left|by right]. }
  split.
  - rewrite Forall_forall in Hlt. by apply Hlt.
  - apply Hsub in Hc. set_solver.
Qed.

Lemma pick_extreme_sim (mn : bool) (s : store) i :
  WF s -> fuse s = None -> left i < ssize s ->
  exists c t, apick_extreme pr ple mn (eview s) i = Some (c, t) /\
    pick_extreme ple mn s i = Ok (c, set_ticks s (ticks s + t)).
Proof.
  intros HWF Hf Hl. unfold pick_extreme, apick_extreme.
  rewrite candidates_sim by done.
  pose proof (atake_present_lt (eview s) [left i; right i; left (left i); right (left i); left (right i); right (right i)]) as Hlt.
  change (atake_present (eview s) _) with (acands (eview s) i) in Hlt.
  rewrite (eview_length s HWF) in Hlt.
  destruct (acands (eview s) i) as [|c0 cs] eqn:Hc.
  { exfalso. unfold acands in Hc. cbn [atake_present] in Hc.
    destruct (eview_some' s (left i) HWF Hl) as [x Hx]. rewrite Hx in Hc. done. }
  apply Forall_cons in Hlt as [H0 Hcs].
  destruct (eview_some' s c0 HWF H0) as [x0 Hx0]. rewrite Hx0.
  rewrite (prio_at_ok s c0 x0 HWF Hx0). bind. cbn [option_bind].
  destruct mn.
  - rewrite (pick_min_from_sim cs s c0 x0 HWF Hf Hcs).
    destruct (apick_min_from pr ple (eview s) c0 x0 cs) as [c t]. by exists c, t.
  - rewrite (pick_max_from_sim cs s c0 x0 HWF Hf Hcs).
    destruct (apick_max_from pr ple (eview s) c0 x0 cs) as [c t]. by exists c, t.
Qed.

(** ** 3. trickle (heapify_min / heapify_max) *)

Lemma cmp_dir_nofuse (mn : bool) (s : store) a b :
  fuse s = None ->
  cmp_dir ple mn s a b = Ok (alt_dir ple mn a b, set_ticks s (S (ticks s))).
Proof.
  intros Hf. unfold cmp_dir, alt_dir. destruct mn; rewrite cmp_lt_nofuse by done; reflexivity.
Qed.

Lemma trickle_sim (mn : bool) (fuel : nat) : forall (s : store) i,
  WF s -> fuse s = None -> 2 <= ssize s -> ssize s - i < fuel ->
  sim s (trickle ple mn fuel s i)
      (atrickle pr ple mn fuel (eview s) i).1 (atrickle pr ple mn fuel (eview s) i).2.
Proof.
  induction fuel as [|fuel IH]; intros s i HWF Hf H2 Hfuel; [lia|].
  cbn [trickle atrickle]. rewrite (eview_length s HWF).
  assert (Htop : par (ssize s - 1) = (ssize s - 2) / 2) by (unfold par; f_equal; lia).
  rewrite Htop.
  destruct (ssize s) as [|[|n]] eqn:Hsz; [lia|lia|].
  cbn [sub1 parent mbind res_bind rbind]. replace (S (S n) - 2) with n by lia.
  destruct (decide (i <= n / 2)) as [Hi|Hi].
  2:{ cbn [fst snd]. apply (sim_intro' s s); try done; lia. }
  assert (Hl : left i < ssize s).
  { pose proof (Nat.mul_div_le n 2). unfold left. lia. }
  assert (His : i < ssize s) by (unfold left in Hl; lia).
  destruct (pick_extreme_sim mn s i HWF Hf Hl) as (c & t0 & Hab & Hco).
  rewrite Hab, Hco. bind.
  destruct (apick_extreme_range _ _ _ _ _ Hab) as [Hc Hcr].
  rewrite (eview_length s HWF) in Hc.
  assert (Hic : i < c) by (unfold left, right in Hcr; lia).
  set (s1 := set_ticks s (ticks s + t0)).
  assert (HWF1 : WF s1) by exact HWF.
  destruct (eview_some' s c HWF Hc) as [xc Hxc].
  destruct (eview_some' s i HWF His) as [xi Hxi].
  rewrite Hxc, Hxi.
  rewrite (prio_at_ok s1 c xc HWF1 Hxc). bind.
  rewrite (prio_at_ok s1 i xi HWF1 Hxi). bind.
  rewrite cmp_dir_nofuse by done. bind.
  set (s2 := set_ticks s1 (S (ticks s1))).
  assert (HWF2 : WF s2) by exact HWF.
  destruct (alt_dir ple mn xc.2 xi.2).
  2:{ cbn [fst snd]. apply (sim_intro' s s2); try done. unfold s2, s1; cbn; lia. }
  destruct (swap_ok s2 c i HWF2 ltac:(done) ltac:(done))
    as (s3 & Hsw & HWF3 & (Hm3 & Hsz3 & Htk3 & Hfu3 & Hcp3) & Hev3).
  rewrite Hsw. bind.
  change (eview s2) with (eview s) in Hev3.
  change (smap s2) with (smap s) in Hm3. change (ssize s2) with (ssize s) in Hsz3.
  change (fuse s2) with (fuse s) in Hfu3. change (cap s2) with (cap s) in Hcp3.
  assert (Htk3' : ticks s3 = ticks s + (t0 + 1)) by (rewrite Htk3; unfold s2, s1; cbn; lia).
  clearbody s1 s2. clear Htk3.
  destruct (decide (right i < c)) as [Hgc|Hgc].
  2:{ cbn [fst snd]. apply (sim_intro' s s3); try done. }
  destruct c as [|k]; [lia|].
  cbn [parent mbind res_bind rbind]. rewrite <- (par_S k).
  set (p := par (S k)). assert (Hp : p < S k) by apply par_lt.
  rewrite <- Hev3.
  destruct (eview_some' s3 (S k) HWF3 ltac:(lia)) as [yc Hyc].
  destruct (eview_some' s3 p HWF3 ltac:(lia)) as [yp Hyp].
  rewrite Hyc, Hyp.
  rewrite (prio_at_ok s3 _ yc HWF3 Hyc). bind.
  rewrite (prio_at_ok s3 _ yp HWF3 Hyp). bind.
  rewrite cmp_dir_nofuse by congruence. bind.
  set (s4 := set_ticks s3 (S (ticks s3))).
  assert (HWF4 : WF s4) by exact HWF3.
  assert (exists s5, (if alt_dir ple mn yp.2 yc.2 then swap s4 (S k) p else Ok s4) = Ok s5 /\
            WF s5 /\ frame s4 s5 /\
            eview s5 = (if alt_dir ple mn yp.2 yc.2 then aswap (eview s3) (S k) p else eview s3))
    as (s5 & Hs5 & HWF5 & (Hm5 & Hsz5 & Htk5 & Hfu5 & Hcp5) & Hev5).
  { destruct (alt_dir ple mn yp.2 yc.2).
    - destruct (swap_ok s4 (S k) p HWF4) as (s5 & ? & ? & ? & ?);
        [change (ssize s4) with (ssize s3); lia..|].
      exists s5. done.
    - exists s4. unfold frame. done. }
  rewrite Hs5. bind.
  change (smap s4) with (smap s3) in Hm5. change (ssize s4) with (ssize s3) in Hsz5.
  change (fuse s4) with (fuse s3) in Hfu5. change (cap s4) with (cap s3) in Hcp5.
  assert (Htk5' : ticks s5 = ticks s + (t0 + 2)) by (rewrite Htk5; unfold s4; cbn; lia).
  clearbody s4. clear Htk5.
  destruct (IH s5 (S k) HWF5 ltac:(congruence) ltac:(lia) ltac:(lia))
    as (s6 & Hr6 & HWF6 & Hev6 & Hm6 & Hsz6 & Htk6 & Hfu6 & Hcp6).
  rewrite Hev5 in Hev6, Htk6.
  destruct (atrickle pr ple mn fuel
              (if alt_dir ple mn yp.2 yc.2 then aswap (eview s3) (S k) p else eview s3) (S k))
    as [l3 t3]. cbn [fst snd] in *.
  apply (sim_intro' s s6); try congruence. lia.
Qed.

(** ** 4. heapify *)

Lemma dheapify_sim (s : store) i :
  WF s -> fuse s = None ->
  sim s (dheapify ple s i) (adheapify pr ple (eview s) i).1 (adheapify pr ple (eview s) i).2.
Proof.
  intros HWF Hf. unfold dheapify, adheapify. rewrite (eview_length s HWF).
  destruct (decide (ssize s <= 1)).
  - cbn [fst snd]. apply (sim_intro' s s); try done; lia.
  - change (amin_level i) with (on_min_level i).
    apply trickle_sim; try done; lia.
Qed.

(** ** 5. the grandparent chain, bubble_up, up_heapify, heap_build *)

Lemma bubble_chain_sim (mn : bool) (fuel : nat) : forall (s : store) pos idx e,
  WF (fill s pos idx) -> fuse s = None -> pos < ssize s -> smap s !! idx = Some e ->
  pos < fuel ->
  exists s' pos' l' t,
    achain pr ple mn fuel (eview (fill s pos idx)) pos = (l', pos', t) /\
    bubble_chain ple mn fuel s pos idx e.2 = Ok (pos', s') /\
    WF (fill s' pos' idx) /\ eview (fill s' pos' idx) = l' /\
    smap s' = smap s /\ ssize s' = ssize s /\ ticks s' = ticks s + t /\
    fuse s' = fuse s /\ cap s' = cap s /\ pos' <= pos.
Proof.
  induction fuel as [|fuel IH]; intros s pos idx e HWF Hf Hp He Hfuel; [lia|].
  cbn [bubble_chain achain].
  destruct pos as [|k].
  { exists s, 0, (eview (fill s 0 idx)), 0. splits; try done; lia. }
  cbn [parent mbind res_bind rbind]. rewrite par_S.
  destruct (k / 2) as [|j] eqn:Hk2.
  { exists s, (S k), (eview (fill s (S k) idx)), 0. splits; try done; lia. }
  cbn [parent mbind res_bind rbind]. rewrite <- (par_S j).
  set (gp := par (S j)). assert (Hgj : gp < S j) by apply par_lt.
  assert (Hjk : S j <= k) by (rewrite <- Hk2; apply Nat.div_le_upper_bound; lia).
  destruct (WF_fill_facts _ _ _ _ HWF) as (Lh & Lq & Lm).
  assert (Hgps : gp < ssize s) by lia.
  destruct (eview_some' _ gp HWF Hgps) as [xg Hxg].
  rewrite Hxg. rewrite (eview_fill_pos' s (S k) idx HWF Hp), He.
  rewrite <- (fill_prio_at s (S k) idx gp) by lia.
  rewrite (prio_at_ok _ _ _ HWF Hxg). bind.
  rewrite cmp_dir_nofuse by done. bind.
  set (s1 := set_ticks s (S (ticks s))).
  destruct (alt_dir ple mn e.2 xg.2) eqn:Hb.
  - (* the grandparent moves down *)
    pose proof Hxg as Hxg'. rewrite (eview_lookup _ _ HWF) in Hxg'.
    destruct (heap (fill s (S k) idx) !! gp) as [gidx|] eqn:Hgidx; [|done].
    destruct (fill_heap_lookup keq s (S k) idx gp gidx HWF ltac:(lia) Hgps Hgidx) as (Hh & Hgi & Hgne).
    change (heap s1) with (heap s). change (qp s1) with (qp s).
    unfold getu. rewrite Hh. bind.
    unfold setu. rewrite decide_True by lia. bind.
    rewrite decide_True by lia. bind.
    change (set_qp (set_heap s1 (<[S k:=gidx]> (heap s))) (<[gidx:=S k]> (qp s)))
      with (hole_move s1 (S k) gp gidx).
    assert (HWF1 : WF (fill s1 (S k) idx)) by exact HWF.
    destruct (hole_move_ok s1 (S k) gp idx gidx HWF1 Hp Hgps ltac:(lia) Hh) as (HWF2 & _ & Hev2).
    set (s2 := hole_move s1 (S k) gp gidx) in *.
    destruct (IH s2 gp idx e HWF2 Hf Hgps He ltac:(lia))
      as (s' & pos' & l' & t & Hab & Hco & HWF' & Hev' & Hm' & Hsz' & Htk' & Hfu' & Hcp' & Hle).
    change (eview (fill s1 (S k) idx)) with (eview (fill s (S k) idx)) in Hev2.
    rewrite Hev2 in Hab. rewrite Hab.
    exists s', pos', l', (S t). splits; try done; try lia.
    rewrite Htk'. unfold s2, s1. cbn. lia.
  - exists s1, (S k), (eview (fill s (S k) idx)), 1.
    splits; try done; try lia. unfold s1; cbn; lia.
Qed.

Lemma dbubble_up_sim (s : store) pos idx :
  WF (fill s pos idx) -> fuse s = None -> pos < ssize s -> idx < ssize s ->
  exists s' pos' l' t,
    adbubble_up pr ple (eview (fill s pos idx)) pos = (l', pos', t) /\
    dbubble_up ple s pos idx = Ok (pos', s') /\
    WF s' /\ eview s' = l' /\
    smap s' = smap s /\ ssize s' = ssize s /\ ticks s' = ticks s + t /\
    fuse s' = fuse s /\ cap s' = cap s /\ pos' <= pos.
Proof.
  intros HWF Hf Hp Hi.
  destruct (WF_fill_facts _ _ _ _ HWF) as (Lh & Lq & Lm).
  destruct (lookup_lt_is_Some_2 (smap s) idx ltac:(lia)) as [e He].
  unfold dbubble_up, adbubble_up. rewrite He. cbn [unwrap mbind res_bind rbind].
  destruct pos as [|k].
  { bind. unfold setu. rewrite decide_True by lia. bind.
    rewrite decide_True by lia. bind.
    exists (fill s 0 idx), 0, (eview (fill s 0 idx)), 0. splits; try done; lia. }
  cbn [parent mbind res_bind rbind]. rewrite <- (par_S k).
  set (pa := par (S k)). assert (Hpa : pa < S k) by apply par_lt.
  assert (Hpas : pa < ssize s) by lia.
  destruct (eview_some' _ pa HWF Hpas) as [xp Hxp].
  rewrite Hxp. rewrite (eview_fill_pos' s (S k) idx HWF Hp), He.
  rewrite <- (fill_prio_at s (S k) idx pa) by lia.
  rewrite (prio_at_ok _ _ _ HWF Hxp). bind.
  pose proof Hxp as Hxp'. rewrite (eview_lookup _ _ HWF) in Hxp'.
  destruct (heap (fill s (S k) idx) !! pa) as [pidx|] eqn:Hpidx; [|done].
  destruct (fill_heap_lookup keq s (S k) idx pa pidx HWF ltac:(lia) Hpas Hpidx) as (Hh & Hpi & Hpne).
  unfold getu at 1. rewrite Hh. bind.
  unfold cmp_lt_hole. rewrite cmp_lt_nofuse by done. bind.
  change (plt ple xp.2 e.2) with (alt ple xp.2 e.2).
  change (amin_level (S k)) with (on_min_level (S k)).
  set (s1 := set_ticks s (S (ticks s))).
  assert (HWF1 : WF (fill s1 (S k) idx)) by exact HWF.
  assert (exists s' pos' l' t,
    (let '(l', p', t) :=
       match on_min_level (S k), alt ple xp.2 e.2 with
       | true, true => achain pr ple false (S (S k)) (aswap (eview (fill s (S k) idx)) (S k) pa) pa
       | true, false => achain pr ple true (S (S k)) (eview (fill s (S k) idx)) (S k)
       | false, true => achain pr ple false (S (S k)) (eview (fill s (S k) idx)) (S k)
       | false, false => achain pr ple true (S (S k)) (aswap (eview (fill s (S k) idx)) (S k) pa) pa
       end in (l', p', S t)) = (l', pos', t) /\
    (match on_min_level (S k), alt ple xp.2 e.2 with
     | true, true =>
         h ← setu (heap s1) (S k) pidx; q ← setu (qp s1) pidx (S k);
         bubble_chain ple false (S (S k)) (set_qp (set_heap s1 h) q) pa idx e.2
     | true, false => bubble_chain ple true (S (S k)) s1 (S k) idx e.2
     | false, true => bubble_chain ple false (S (S k)) s1 (S k) idx e.2
     | false, false =>
         h ← setu (heap s1) (S k) pidx; q ← setu (qp s1) pidx (S k);
         bubble_chain ple true (S (S k)) (set_qp (set_heap s1 h) q) pa idx e.2
     end) = Ok (pos', s') /\
    WF (fill s' pos' idx) /\ eview (fill s' pos' idx) = l' /\
    smap s' = smap s /\ ssize s' = ssize s /\ ticks s' = ticks s + t /\
    fuse s' = fuse s /\ cap s' = cap s /\ pos' <= S k)
    as (s' & pos' & l' & t & Hab & Hco & HWF' & Hev' & Hm' & Hsz' & Htk' & Hfu' & Hcp' & Hle).
  { destruct (on_min_level (S k)), (alt ple xp.2 e.2).
    1,4: change (heap s1) with (heap s); change (qp s1) with (qp s);
      unfold setu; rewrite decide_True by lia; bind;
      rewrite decide_True by lia; bind;
      change (set_qp (set_heap s1 (<[S k:=pidx]> (heap s))) (<[pidx:=S k]> (qp s)))
        with (hole_move s1 (S k) pa pidx);
      destruct (hole_move_ok s1 (S k) pa idx pidx HWF1 Hp Hpas ltac:(lia) Hh) as (HWF2 & _ & Hev2);
      set (s2 := hole_move s1 (S k) pa pidx) in *;
      change (eview (fill s1 (S k) idx)) with (eview (fill s (S k) idx)) in Hev2;
      rewrite <- Hev2;
      match goal with |- context [bubble_chain ple ?mn _ _ _ _ _] =>
        destruct (bubble_chain_sim mn (S (S k)) s2 pa idx e HWF2 Hf Hpas He ltac:(lia))
          as (s' & pos' & l' & t & Hab & Hco & HWF' & Hev' & Hm' & Hsz' & Htk' & Hfu' & Hcp' & Hle)
      end;
      rewrite Hab, Hco; exists s', pos', l', (S t); splits; try done; try lia;
      rewrite Htk'; unfold s2, s1; cbn; lia.
    all: match goal with |- context [bubble_chain ple ?mn _ _ _ _ _] =>
        destruct (bubble_chain_sim mn (S (S k)) s1 (S k) idx e HWF1 Hf Hp He ltac:(lia))
          as (s' & pos' & l' & t & Hab & Hco & HWF' & Hev' & Hm' & Hsz' & Htk' & Hfu' & Hcp' & Hle)
      end;
      change (eview (fill s1 (S k) idx)) with (eview (fill s (S k) idx)) in Hab;
      rewrite Hab, Hco; exists s', pos', l', (S t); splits; try done; try lia;
      rewrite Htk'; unfold s1; cbn; lia. }
  rewrite Hab, Hco. bind.
  destruct (WF_fill_facts _ _ _ _ HWF') as (Lh' & Lq' & Lm').
  unfold setu. rewrite decide_True by lia. bind.
  rewrite decide_True by lia. bind.
  exists (fill s' pos' idx), pos', l', t. splits; done.
Qed.

Lemma dup_heapify_sim (s : store) i :
  WF s -> fuse s = None ->
  sim s (dup_heapify ple s i) (adup_heapify pr ple (eview s) i).1 (adup_heapify pr ple (eview s) i).2.
Proof.
  intros HWF Hf. unfold dup_heapify, adup_heapify.
  destruct (decide (i < ssize s)) as [Hi|Hi].
  2:{ assert (heap s !! i = None) as ->.
      { apply eq_None_not_Some. rewrite heap_lookup_lt by done. done. }
      assert (eview s !! i = None) as ->.
      { apply lookup_ge_None. rewrite (eview_length s HWF). lia. }
      cbn [fst snd]. apply (sim_intro' s s); try done; lia. }
  destruct (WF_heap_lookup keq s i HWF Hi) as (tmp & Hh & Hq & Ht). rewrite Hh.
  destruct (eview_some' s i HWF Hi) as [x Hx]. rewrite Hx.
  pose proof (fill_id s i tmp Hh Hq) as Hfill.
  assert (HWFf : WF (fill s i tmp)) by (rewrite Hfill; done).
  destruct (dbubble_up_sim s i tmp HWFf Hf Hi Ht)
    as (s1 & pos & l1 & t1 & Hab & Hco & HWF1 & Hev1 & Hm1 & Hsz1 & Htk1 & Hfu1 & Hcp1 & Hle).
  rewrite Hfill in Hab. rewrite Hab, Hco. bind.
  assert (Hs2 : sim s1 (if decide (i = pos) then Ok s1 else dheapify ple s1 i)
                  (if decide (i = pos) then (l1, 0) else adheapify pr ple l1 i).1
                  (if decide (i = pos) then (l1, 0) else adheapify pr ple l1 i).2).
  { destruct (decide (i = pos)).
    - cbn [fst snd]. apply (sim_intro' s1 s1); try done; lia.
    - rewrite <- Hev1. apply dheapify_sim; congruence. }
  destruct Hs2 as (s2 & Hr2 & HWF2 & Hev2 & Hm2 & Hsz2 & Htk2 & Hfu2 & Hcp2).
  rewrite Hr2. bind.
  destruct (if decide (i = pos) then (l1, 0) else adheapify pr ple l1 i) as [l2 t2].
  cbn [fst snd] in *.
  destruct (dheapify_sim s2 pos HWF2 ltac:(congruence))
    as (s3 & Hr3 & HWF3 & Hev3 & Hm3 & Hsz3 & Htk3 & Hfu3 & Hcp3).
  rewrite Hev2 in Hev3, Htk3.
  destruct (adheapify pr ple l2 pos) as [l3 t3]. cbn [fst snd] in *.
  apply (sim_intro' s s3); try congruence. lia.
Qed.

Lemma dheap_build_loop_sim (n : nat) : forall (s : store),
  WF s -> fuse s = None ->
  sim s (dheap_build_loop ple s n)
      (adbuild_loop pr ple (eview s) n).1 (adbuild_loop pr ple (eview s) n).2.
Proof.
  induction n as [|k IH]; intros s HWF Hf; cbn [dheap_build_loop adbuild_loop].
  - cbn [fst snd]. apply (sim_intro' s s); try done; lia.
  - destruct (dheapify_sim s k HWF Hf)
      as (s1 & Hr1 & HWF1 & Hev1 & Hm1 & Hsz1 & Htk1 & Hfu1 & Hcp1).
    rewrite Hr1. bind.
    destruct (adheapify pr ple (eview s) k) as [l1 t1] eqn:Hah. cbn [fst snd] in *.
    destruct (IH s1 HWF1 ltac:(congruence))
      as (s2 & Hr2 & HWF2 & Hev2 & Hm2 & Hsz2 & Htk2 & Hfu2 & Hcp2).
    rewrite Hev1 in Hev2, Htk2.
    destruct (adbuild_loop pr ple l1 k) as [l2 t2] eqn:Hbl. cbn [fst snd] in *.
    apply (sim_intro' s s2); try congruence. lia.
Qed.

Lemma dheap_build_sim (s : store) :
  WF s -> fuse s = None ->
  sim s (dheap_build ple s) (adbuild pr ple (eview s)).1 (adbuild pr ple (eview s)).2.
Proof.
  intros HWF Hf. unfold dheap_build, adbuild. rewrite (eview_length s HWF).
  destruct (decide (ssize s = 0)).
  - cbn [fst snd]. apply (sim_intro' s s); try done; lia.
  - destruct (ssize s) as [|k] eqn:Hsz; [done|].
    cbn [parent mbind res_bind rbind]. rewrite par_S.
    by apply dheap_build_loop_sim.
Qed.

(** ** 6. find_min / find_max / peeks *)

Lemma find_min_sim (s : store) :
  WF s -> find_min s = afind_min (eview s).
Proof. intros HWF. unfold find_min, afind_min. by rewrite (eview_length s HWF). Qed.

Lemma afind_max_lt (l : list (I * P)) p :
  (afind_max pr ple l).1 = Some p -> p < length l.
Proof.
  unfold afind_max. destruct l as [|x0 [|x1 [|x2 l]]]; cbn [length fst]; try (intros [= <-]; lia).
  cbn [lookup list_lookup fst]. destruct (alt ple x2.2 x1.2); intros [= <-]; lia.
Qed.

Lemma find_max_sim (s : store) :
  WF s -> fuse s = None ->
  find_max ple s = Ok ((afind_max pr ple (eview s)).1,
                       set_ticks s (ticks s + (afind_max pr ple (eview s)).2)).
Proof.
  intros HWF Hf. unfold find_max, afind_max. rewrite (eview_length s HWF).
  destruct (ssize s) as [|[|[|n]]] eqn:Hsz; cbn [fst snd]; try (by rewrite set_ticks_0).
  destruct (eview_some' s 1 HWF ltac:(lia)) as [x1 Hx1].
  destruct (eview_some' s 2 HWF ltac:(lia)) as [x2 Hx2].
  rewrite Hx1, Hx2.
  rewrite (prio_at_ok s 1 x1 HWF Hx1). bind.
  rewrite (prio_at_ok s 2 x2 HWF Hx2). bind.
  rewrite cmp_lt_nofuse by done. bind.
  change (plt ple x2.2 x1.2) with (alt ple x2.2 x1.2). cbn [fst snd].
  do 2 f_equal. destruct s; unfold set_ticks; cbn; f_equal; lia.
Qed.

Lemma slot_entry_sim (s : store) pos :
  WF s -> pos < ssize s -> slot_entry s pos = Ok (eview s !! pos).
Proof.
  intros HWF Hp. unfold slot_entry, getu.
  destruct (WF_heap_lookup keq s pos HWF Hp) as (i & Hh & _ & _).
  rewrite (eview_lookup s pos HWF), Hh. reflexivity.
Qed.

Lemma peek_min_sim (s : store) :
  WF s -> peek_min s = Ok (eview s !! 0).
Proof.
  intros HWF. unfold peek_min, find_min.
  destruct (ssize s) as [|n] eqn:Hsz.
  - assert (eview s !! 0 = None) as ->; [|done].
    apply lookup_ge_None. rewrite (eview_length s HWF). lia.
  - apply slot_entry_sim; [done|lia].
Qed.

Lemma peek_max_sim (s : store) :
  WF s -> fuse s = None ->
  peek_max ple s = Ok ((afind_max pr ple (eview s)).1 ≫= (fun pos => eview s !! pos),
                       set_ticks s (ticks s + (afind_max pr ple (eview s)).2)).
Proof.
  intros HWF Hf. unfold peek_max. rewrite find_max_sim by done. bind.
  pose proof (afind_max_lt (eview s)) as Hlt. rewrite (eview_length s HWF) in Hlt.
  destruct (afind_max pr ple (eview s)) as [[pos|] t]; cbn [fst snd] in *; [|done].
  rewrite (slot_entry_sim (set_ticks s (ticks s + t)) pos HWF (Hlt pos eq_refl)). reflexivity.
Qed.

(** ** 7. pop_min / pop_max *)

Lemma pop_at_sim (s : store) pos :
  WF s -> fuse s = None -> pos < ssize s ->
  exists e i s' t,
    pop_at ple s pos = Ok (Some e, s') /\
    a_pop_at pr ple (eview s) pos = (Some e, eview s', t) /\
    WF s' /\ eview s !! pos = Some e /\
    heap s !! pos = Some i /\ smap s !! i = Some e /\
    map_swap_remove_index (smap s) i = Some (e, smap s') /\
    ssize s' = ssize s - 1 /\ ticks s' = ticks s + t /\
    fuse s' = fuse s /\ cap s' = cap s.
Proof.
  intros HWF Hf Hp.
  destruct (swap_remove_ok s pos HWF Hp)
    as (e & i & s1 & Hsr & HWF1 & Hh & He & Hev1 & Hmr & Hsz1 & Htk1 & Hfu1 & Hcp1).
  destruct (dheapify_sim s1 pos HWF1 ltac:(congruence))
    as (s2 & Hr2 & HWF2 & Hev2 & Hm2 & Hsz2 & Htk2 & Hfu2 & Hcp2).
  assert (Hx : eview s !! pos = Some e).
  { rewrite (eview_lookup s pos HWF), Hh. exact He. }
  unfold pop_at, a_pop_at. rewrite Hsr. bind. rewrite Hr2. bind.
  rewrite Hev1 in Hev2, Htk2.
  destruct (adheapify pr ple (aswap_remove (eview s) pos) pos) as [l' t]. cbn [fst snd] in *.
  exists e, i, s2, t. rewrite Hx, Hev2, Hm2. splits; try done; congruence.
Qed.

End SimDPQ.
