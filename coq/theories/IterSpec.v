(** * IterSpec: pinned statements about the iterator state machines of
    Iter.v (C09, C13, C16 and the iterator parts of C06/C08). *)
From PQV Require Export OpSpec Iter.

Section IterSpec.
Context {I P : Type}.
Variable keq : I -> I -> bool.
Variable hash : I -> N.
Variable ple : P -> P -> bool.

Notation store := (store I P).
Notation sout := (sout I P).
Notation istep := (istep I P).
Notation WF := (WF keq).

(** what a mutable iterator handed out: (slot, content after the caller's writes) *)
Definition yields (outs : list sout) : list (nat * (I * P)) :=
  omap (fun o => match o with SMut y => y | _ => None end) outs.
(** what a shared/owning iterator handed out *)
Definition elems (outs : list sout) : list (I * P) :=
  omap (fun o => match o with SElem y => y | _ => None end) outs.

(** the exact-size / fused contract along a script: [rem] elements are still
    to come; an element is yielded only while [rem > 0], None only when
    [rem = 0] (and then forever), len and size_hint report exactly [rem] *)
Fixpoint exact_outs (rem : nat) (outs : list sout) : Prop :=
  match outs with
  | [] => True
  | o :: outs' =>
      match o with
      | SMut (Some _) | SElem (Some _) => 0 < rem /\ exact_outs (rem - 1) outs'
      | SMut None | SElem None => rem = 0 /\ exact_outs rem outs'
      | SLen r => r = Ok rem /\ exact_outs rem outs'
      | SHint lo hi => lo = rem /\ hi = Some rem /\ exact_outs rem outs'
      end
  end.
(** the same for an iterator that declares no exact size (PriorityQueue's
    iter_mut and into_sorted_iter): elements, then None forever *)
Fixpoint fused_outs (rem : nat) (outs : list sout) : Prop :=
  match outs with
  | [] => True
  | o :: outs' =>
      match o with
      | SMut (Some _) | SElem (Some _) => 0 < rem /\ fused_outs (rem - 1) outs'
      | SMut None | SElem None => rem = 0 /\ fused_outs rem outs'
      | _ => fused_outs rem outs'
      end
  end.

(** ** iter_mut (C09, C08): whatever calls are made, directly or through
    rev / take *)
Definition itermut_stmt : Prop :=
  forall k a left s script s' st' outs,
    it_run (im_it k) a left (s, im_new s) script [] = Some (Ok ((s', st'), outs)) ->
    NoDup (fst <$> yields outs) /\
    (forall slot e, (slot, e) ∈ yields outs -> smap s' !! slot = Some e) /\
    (forall slot, slot ∉ (fst <$> yields outs) -> smap s' !! slot = smap s !! slot) /\
    length (smap s') = length (smap s) /\
    heap s' = heap s /\ qp s' = qp s /\ ssize s' = ssize s /\
    ticks s' = ticks s /\ fuse s' = fuse s /\ cap s' = cap s.

(** the store stays well-formed (the caller keeps items in their Eq class) *)
Definition itermut_wf_stmt : Prop := keq_ok keq hash ->
  forall k a left s script s' st' outs,
    WF s ->
    Forall (fun x : istep => match x with
                             | INext _ u | INextBack _ u => item_ok keq u
                             | _ => True end) script ->
    it_run (im_it k) a left (s, im_new s) script [] = Some (Ok ((s', st'), outs)) ->
    WF s'.

(** DoublePriorityQueue's iter_mut declares an exact size: directly or reversed *)
Definition itermut_exact_stmt : Prop :=
  forall a s script s' st' outs, a = ADirect \/ a = ARev ->
    it_run (im_it KDPQ) a 0 (s, im_new s) script [] = Some (Ok ((s', st'), outs)) ->
    exact_outs (length (smap s)) outs.
Definition itermut_fused_stmt : Prop :=
  forall s script s' st' outs,
    it_run (im_it KPQ) ADirect 0 (s, im_new s) script [] = Some (Ok ((s', st'), outs)) ->
    fused_outs (length (smap s)) outs.

(** ** iter / into_iter / drain (C13, C16) *)
Definition dq_stmt : Prop :=
  forall a (l : list (I * P)) script l' outs, a = ADirect \/ a = ARev ->
    it_run (dq_it (I:=I) (P:=P)) a 0 l script [] = Some (Ok (l', outs)) ->
    exact_outs (length l) outs /\
    exists front back, l = front ++ l' ++ back /\ elems outs ≡ₚ front ++ back.

(** composing with the standard adaptors and asking for their length never panics *)
Definition dq_adaptor_len_stmt : Prop :=
  forall (l : list (I * P)) la,
    adaptor_len (dq_it (I:=I) (P:=P)) la l =
      Some (Ok (Ok (match la with
                    | LTake n | LZip n => Nat.min (length l) n
                    | LSkip n => length l - n
                    | LRev | LEnumerate | LPeekable => length l
                    end))).
Definition itermut_adaptor_len_stmt : Prop :=
  forall (s : store) st la,
    exists n, adaptor_len (im_it KDPQ) la (s, st) = Some (Ok (Ok n)).
Definition sorted_adaptor_len_stmt : Prop :=
  forall (s : store) la,
    exists n, adaptor_len (sorted_it ple KDPQ) la s = Some (Ok (Ok n)).

(** ** the sorted iterators (C06): any interleaving of next / next_back *)
(** [outs] is a legal behaviour from the multiset [m] of remaining entries:
    next yields a minimum and next_back a maximum of what remains *)
Fixpoint sorted_outs (m : list (I * P)) (script : list istep) (outs : list sout) : Prop :=
  match script, outs with
  | [], [] => True
  | x :: script', o :: outs' =>
      match x, o with
      | INext _ _, SElem (Some e) =>
          is_min (snd : I * P -> P) ple m e /\ exists m', m ≡ₚ e :: m' /\ sorted_outs m' script' outs'
      | INextBack _ _, SElem (Some e) =>
          is_max (snd : I * P -> P) ple m e /\ exists m', m ≡ₚ e :: m' /\ sorted_outs m' script' outs'
      | (INext _ _ | INextBack _ _), SElem None => m = [] /\ sorted_outs m script' outs'
      | ILen, SLen r => r = Ok (length m) /\ sorted_outs m script' outs'
      | ISizeHint, SHint lo hi => lo = length m /\ hi = Some (length m) /\ sorted_outs m script' outs'
      | _, _ => False
      end
  | _, _ => False
  end.

Definition dpq_sorted_iter_stmt : Prop := keq_ok keq hash -> ord_ok ple ->
  forall s script, dpq_inv keq ple true s ->
    exists s' outs,
      it_run (sorted_it ple KDPQ) ADirect 0 s script [] = Some (Ok (s', outs)) /\
      dpq_inv keq ple true s' /\ sorted_outs (smap s) script outs.

(** PriorityQueue's sorted iterator: next only; non-increasing *)
Fixpoint pq_sorted_outs (m : list (I * P)) (script : list istep) (outs : list sout) : Prop :=
  match script, outs with
  | [], [] => True
  | x :: script', o :: outs' =>
      match x, o with
      | INext _ _, SElem (Some e) =>
          is_max (snd : I * P -> P) ple m e /\ exists m', m ≡ₚ e :: m' /\ pq_sorted_outs m' script' outs'
      | INext _ _, SElem None => m = [] /\ pq_sorted_outs m script' outs'
      | ISizeHint, SHint lo hi => lo = 0 /\ hi = None /\ pq_sorted_outs m script' outs'
      | _, _ => False
      end
  | _, _ => False
  end.
Definition pq_sorted_iter_stmt : Prop := keq_ok keq hash -> ord_ok ple ->
  forall s script, pq_inv keq ple true s ->
    Forall (fun x : istep => match x with INext _ _ | ISizeHint => True | _ => False end) script ->
    exists s' outs,
      it_run (sorted_it ple KPQ) ADirect 0 s script [] = Some (Ok (s', outs)) /\
      pq_inv keq ple true s' /\ pq_sorted_outs (smap s) script outs.

End IterSpec.
