"""C05 implementation-only search: big queues (the model extracted to unary
naturals is too slow there), priority patterns and positions of the addressed
element; the comparison counts are checked against the proved bounds."""
import os
import random
import subprocess

import pqv_oracle


def patterns(n, rng):
    yield "asc", list(range(n))
    yield "desc", list(range(n, 0, -1))
    yield "const", [7] * n
    yield "random", [rng.randrange(0, 4 * n) for _ in range(n)]


def history(hid, kind, n, pname, prios):
    ops = ["fromvec %s 0 %d %s" % (kind, n, " ".join("%d 0 %d" % (i, p) for i, p in enumerate(prios)))]
    lo, hi = min(prios) - 5, max(prios) + 5
    sides = ["max"] if kind == "pq" else ["min", "max"]
    probe = sorted({0, 1, n // 2, n - 2, n - 1} & set(range(n)))
    for k in probe:                      # both extremes for elements all over the heap
        ops += ["chg 0 %d %d" % (k, hi), "chg 0 %d %d" % (k, lo), "chgadd 0 %d 1" % k,
                "pushinc 0 %d 0 %d" % (k, hi + 1), "pushdec 0 %d 0 %d" % (k, lo - 1),
                "push 0 %d 0 %d" % (k, prios[k])]
    for s in sides:
        ops += ["peek 0 %s" % s, "popif 0 %s %d - 0" % (s, lo - 2), "popif 0 %s %d - 0" % (s, hi + 2),
                "popif 0 %s - - 1" % s, "pop 0 %s" % s, "peekmut 0 %s 9" % s]
    ops += ["push 0 %d 0 %d" % (n + 1, hi + 3), "push 0 %d 0 %d" % (n + 2, lo - 3),
            "remove 0 %d" % (n // 3), "remove 0 %d" % (n + 1), "len 0", "getprio 0 5"]
    ops += ["retain 0 1 1 %d 0" % (n // 4), "retainmut 0 1 1 %d %d 1" % (n // 5, hi + 9),
            "itermut 0 direct drop 2 n:%d:- n" % (lo - 9), "convert 0", "convert 0",
            "clone 0 1", "push 1 %d 0 0" % (n + 7), "append 0 1", "serde 0 %s 1" % kind]
    for s in sides:
        ops += ["pop 0 %s" % s] * 3
    return "H %d 0 2\n%s\n" % (hid, "\n".join(ops))


def search(tier, seed, hbin, rundir, _alarm):
    rng = random.Random(seed)
    sizes = [1 << 12, 1 << 14] if tier == "quick" else [1 << 12, 1 << 14, 1 << 16, 1 << 18, 1 << 20]
    hid = 0
    path = os.path.join(rundir, "bign.hist")
    with open(path, "w") as f:
        for n in sizes:
            for kind in ("pq", "dpq"):
                for pname, prios in patterns(n, rng):
                    f.write(history(hid, kind, n, pname, prios))
                    hid += 1
    tr = path + ".impl"
    env = dict(os.environ, PQH_NOSTATE="1")
    p = subprocess.run([hbin, "exec", path, tr, "--timeout", "600"], env=env, stdout=subprocess.PIPE,
                       stderr=subprocess.STDOUT, text=True)
    if p.returncode != 0:
        raise RuntimeError("big-n run failed: " + p.stdout[-500:])
    v = pqv_oracle.run_oracle(pqv_oracle.ORACLES["C05"], path, tr)
    if v:
        v["file"] = path
        v["no_minimise"] = True
        v["ops"] = [o if len(o) < 300 else o[:200] + " ...(%d tokens)" % len(o.split()) for o in v["ops"]]
    search.stats = dict(bign_histories=hid, bign_sizes=sizes)
    return v


def borrow_search(tier, seed, hbin, rundir, _alarm):
    """C12, last clause (borrowed lookups): implementation-only random
    histories on String-keyed queues addressed through &str"""
    count = 3000 if tier == "quick" else 40000
    p = subprocess.run([hbin, "borrow", str(seed), str(count), "80"], stdout=subprocess.PIPE,
                       stderr=subprocess.STDOUT, text=True)
    borrow_search.stats = dict(borrowed_lookup_histories=count, borrowed_lookup_ops=count * 80)
    if p.returncode == 0:
        return None
    lines = p.stdout.strip().split("\n")
    return dict(header="(String-keyed queue; lookups through &str)", ops=[l.strip() for l in lines[1:]],
                step=len(lines) - 2, why=lines[0], impl=lines[0], no_minimise=True,
                cmd=["borrow", str(seed), str(count), "80"])


def hash_fuse_search(tier, seed, hbin, rundir, _alarm):
    """C10: panics inside the user's Hash / Eq / Drop (and everything else) at the
    k-th callback, caught.  IndexMap performs the hashing and probing, so the
    model does not count these callbacks: implementation-only.  After every
    step the raw tables must be well-formed (the state the unchecked accesses
    rely on - what C10_unwind_step proves for the modelled callbacks) and no
    later operation may abort."""
    count = 3000 if tier == "quick" else 30000
    stats = dict(hash_fuse_histories=0, hash_fuse_unwound=0)
    runs = []
    # witnesses of repaired defects first (implementation-only corpus: `hfuse` lines have no model counterpart)
    cdir = os.path.join(os.path.dirname(os.path.dirname(os.path.abspath(__file__))), "corpus_impl")
    for f in sorted(os.listdir(cdir)) if os.path.isdir(cdir) else []:
        if f.startswith("C10") and f.endswith(".hist"):
            dst = os.path.join(rundir, "impl_" + f)
            with open(os.path.join(cdir, f)) as src, open(dst, "w") as out:
                out.write(src.read())
            runs.append(dst)
    for hm in (0, 1):
        hist = os.path.join(rundir, "hfuse%d.hist" % hm)
        p = subprocess.run([hbin, "gen", "random", "--seed", str(seed + 77 + hm), "--count", str(count // 2), "--len", "50",
                            "--kind", "both", "--profile", "hfuse", "--keys", "12", "--prios", "small",
                            "--hashmode", str(hm), "--out", hist], stdout=subprocess.PIPE, stderr=subprocess.STDOUT, text=True)
        if p.returncode != 0:
            raise RuntimeError("hfuse gen failed: " + p.stdout[-300:])
        runs.append(hist)
    # bigger queues and batches: the bulk strategies of extend / collect / append under panics
    hist = os.path.join(rundir, "hfuse_bulk.hist")
    p = subprocess.run([hbin, "gen", "random", "--seed", str(seed + 79), "--count", str(count * 3), "--len", "60",
                        "--kind", "both", "--profile", "hfuse", "--keys", "40", "--prios", "small",
                        "--hashmode", "0", "--boost", "extend:8,fromiter:3,append:3", "--out", hist],
                       stdout=subprocess.PIPE, stderr=subprocess.STDOUT, text=True)
    if p.returncode != 0:
        raise RuntimeError("hfuse gen failed: " + p.stdout[-300:])
    runs.append(hist)
    for hist in runs:
        tr = hist + ".impl"
        p = subprocess.run([hbin, "exec", hist, tr, "--timeout", "300"], stdout=subprocess.PIPE, stderr=subprocess.STDOUT, text=True)
        traces = pqv_oracle.read_traces(tr)
        for hid, header, ops in pqv_oracle.read_histories(hist):
            lines = traces.get(hid, [])
            stats["hash_fuse_histories"] += 1
            had_unwound = False
            for k, line in enumerate(lines):
                why = None
                if line.startswith("unwound"):
                    had_unwound = True
                    stats["hash_fuse_unwound"] += 1
                if line.startswith("fault ub") or line.startswith("fault fuel"):
                    why = "abort / out-of-bounds access after a caught panic (Hash/Eq/Drop/cmp/... fused): " + line.split(" ;")[0]
                elif line.startswith("fault") and not had_unwound:
                    why = "panic without a preceding caught panic"
                else:
                    _, _, regs = pqv_oracle.split_line(line)
                    for r, reg in regs.items():
                        w = pqv_oracle.wf_violation(reg)
                        # duplicate keys cannot arise from atomic map operations either
                        if w:
                            why = "register %d after %r: %s" % (r, ops[min(k, len(ops) - 1)], w)
                            break
                if why:
                    hash_fuse_search.stats = stats
                    return dict(header=header, ops=ops[: k + 1] if not line.startswith("fault ub") else ops,
                                step=k, why=why, impl=line, no_minimise=True, file=hist)
    hash_fuse_search.stats = stats
    return None


def zst_search(tier, seed, hbin, rundir, _alarm):
    """degenerate type parameters (zero-sized item / priority types, extreme
    priorities) through every constructor and both serde paths: implementation-only"""
    p = subprocess.run([hbin, "zst"], stdout=subprocess.PIPE, stderr=subprocess.STDOUT, text=True)
    zst_search.stats = dict(degenerate_type_batteries=8)
    if p.returncode == 0:
        return None
    lines = p.stdout.strip().split("\n")
    return dict(header="(degenerate item/priority types; see harness/src/zst.rs)", ops=[l.strip() for l in lines[1:]],
                step=len(lines) - 2, why=lines[0], impl=lines[0], no_minimise=True, cmd=["zst"])


def zst_cap_search(tier, seed, hbin, rundir, _alarm):
    """C17 on degenerate and large item types: reservation post-conditions and an unsatisfiable request"""
    p = subprocess.run([hbin, "zst", "cap"], stdout=subprocess.PIPE, stderr=subprocess.STDOUT, text=True)
    zst_cap_search.stats = dict(degenerate_type_capacity_batteries=7)
    if p.returncode == 0:
        return None
    lines = p.stdout.strip().split("\n")
    return dict(header="(capacity functions on degenerate item/priority types; see harness/src/zst.rs)", ops=[l.strip() for l in lines[1:]],
                step=len(lines) - 2, why=lines[0], impl=lines[0], no_minimise=True, cmd=["zst", "cap"])


def drops_search(tier, seed, hbin, rundir, _alarm):
    """drop balance: no value dropped twice, none leaked (C10), clear / drain drop everything
    (C16); item / priority types with and without drop glue.  Implementation only."""
    count = 3000 if tier == "quick" else 60000
    p = subprocess.run([hbin, "drops", str(seed), str(count), "60"], stdout=subprocess.PIPE,
                       stderr=subprocess.STDOUT, text=True)
    drops_search.stats = dict(drop_balance_histories=count, drop_balance_ops=count * 60)
    if p.returncode == 0:
        return None
    lines = p.stdout.strip().split("\n")
    return dict(header="(drop balance of instrumented item / priority types; see harness/src/drops.rs)",
                ops=[l.strip() for l in lines[1:]], step=len(lines) - 2, why=lines[0], impl=lines[0], no_minimise=True,
                cmd=["drops", str(seed), str(count), "60"])


def huge(kinds, aspects):
    """queues of 66 000 .. 133 000 elements (thorough: .. 1 050 000), straddling the
    powers of two 2^16 .. 2^20: far beyond what the extracted model can run.
    Implementation only, checked natively against a reference and against
    the invariants the theorems prove for every size (harness/src/huge.rs).
    `aspects` selects the clauses this property speaks about, so that a
    defect in another clause does not alarm this property."""
    def run(tier, seed, hbin, rundir, _alarm):
        p = subprocess.run([hbin, "huge", kinds, str(seed), tier, aspects], stdout=subprocess.PIPE,
                           stderr=subprocess.DEVNULL, text=True)
        lines = p.stdout.strip().split("\n")
        if p.returncode == 0 and lines and lines[-1].startswith("ok "):
            _, nsc, steps, mx = lines[-1].split()
            run.stats = dict(large_scenarios=int(nsc), large_steps=int(steps), large_max_size=int(mx), large_aspects=aspects)
            return None
        run.stats = dict(large_scenarios=0)
        why = lines[0] if lines and lines[0] else "large-queue battery died (exit %d)" % p.returncode
        return dict(header="(large queues, implementation only: pqharness huge %s %d %s %s)" % (kinds, seed, tier, aspects),
                    ops=[l.strip() for l in lines[1:]], step=max(len(lines) - 2, 0), why=why, impl=why, no_minimise=True,
                    cmd=["huge", kinds, str(seed), tier, aspects])
    return run


def chain(*fs):
    """several implementation-only searches for one property"""
    def run(tier, seed, hbin, rundir, alarm):
        stats = {}
        out = None
        for f in fs:
            v = f(tier, seed, hbin, rundir, alarm)
            stats.update(getattr(f, "stats", {}))
            if v and out is None:
                out = v
                break
        run.stats = stats
        return out
    return run
