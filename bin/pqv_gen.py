"""History generators written in Python (scenario shapes the random generator
of the harness produces too rarely)."""
import random


def eq_twins(seed, count, shard, nshards, hashmode=0):
    """C14: two queues holding the same (item, priority) set through different
    histories (insertion order, overshoot-and-return updates, pop/push-back),
    ties at the extremes; then one-item / one-priority differences; clones."""
    out = []
    for hid in range(count):
        if hid % nshards != shard:
            continue
        rng = random.Random(seed * 1000003 + hid)
        kind = rng.choice(["pq", "dpq"])
        n = rng.choice([0, 1, 2, 3, 4, 5, 6, 8, 12, 20])
        keys = rng.sample(range(40), n)
        hi = rng.choice([1, 2, 3, 50])
        pairs = [(k, rng.randrange(0, hi + 1)) for k in keys]
        ops = ["new %s 0" % kind] + ["push 0 %d %d %d" % (k, 100 + i, p) for i, (k, p) in enumerate(pairs)]
        sh = pairs[:]
        rng.shuffle(sh)
        ops += ["new %s 1" % kind] + ["push 1 %d %d %d" % (k, 200 + i, p) for i, (k, p) in enumerate(sh)]
        ops += ["eq 0 1", "eq 1 0"]
        cur = dict(pairs)
        for _ in range(rng.randrange(0, 6)):          # perturb register 1 and come back
            if not cur:
                break
            k = rng.choice(list(cur))
            p = cur[k]
            c = rng.randrange(5)
            if c == 0:
                ops += ["chg 1 %d %d" % (k, p + rng.choice([-60, 60, 1, -1])), "chg 1 %d %d" % (k, p)]
            elif c == 1:
                ops += ["pushinc 1 %d 0 %d" % (k, p + 70), "chgby 1 %d %d" % (k, p)]
            elif c == 2:
                ops += ["remove 1 %d" % k, "push 1 %d 7 %d" % (k, p)]
            elif c == 3:
                ops += ["chgadd 1 %d 90" % k, "chgadd 1 %d -90" % k]
            else:
                ops += ["pushdec 1 %d 0 %d" % (k, p - 70), "push 1 %d 0 %d" % (k, p)]
        ops += ["eq 0 1", "eq 1 0", "eq 1 1"]
        ops += ["clone 0 2", "eq 0 2", "eq 2 1"]
        if cur:                                          # now differ in one priority / one item
            k = rng.choice(list(cur))
            c = rng.randrange(3)
            if c == 0:
                ops += ["chg 2 %d %d" % (k, cur[k] + 1)]
            elif c == 1:
                ops += ["remove 2 %d" % k]
            else:
                ops += ["remove 2 %d" % k, "push 2 %d 0 %d" % (99, cur[k])]
        else:
            ops += ["push 2 5 0 5"]
        ops += ["eq 0 2", "eq 2 0", "eq 2 1", "eq 0 1", "len 0", "len 2"]
        out.append("H %d %d 3\n%s\n" % (hid, hashmode, "\n".join(ops)))
    return "".join(out)


GENERATORS = {"eq_twins": eq_twins}
