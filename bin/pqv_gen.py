"""History generators written in Python (scenario shapes the random generator
of the harness produces too rarely)."""
import random


def eq_twins(seed, count, shard, nshards, hashmode=0):
    """C14: two queues holding the same (item, priority) set through different
    histories (insertion order, overshoot-and-return updates, pop/push-back),
    ties at the extremes; then one-item / one-priority differences; clones."""
    out = []
    for hid in range(count):
        if hid % nshards != shard:
            continue
        rng = random.Random(seed * 1000003 + hid)
        kind = rng.choice(["pq", "dpq"])
        n = rng.choice([0, 1, 2, 3, 4, 5, 6, 8, 12, 20])
        keys = rng.sample(range(40), n)
        hi = rng.choice([1, 2, 3, 50])
        pairs = [(k, rng.randrange(0, hi + 1)) for k in keys]
        ops = ["new %s 0" % kind] + ["push 0 %d %d %d" % (k, 100 + i, p) for i, (k, p) in enumerate(pairs)]
        sh = pairs[:]
        rng.shuffle(sh)
        # tags take no part in the priorities' PartialEq: the twins stay equal
        tg = "/%d" % rng.randrange(1, 4) if rng.randrange(10) < 3 else ""
        ops += ["new %s 1" % kind] + ["push 1 %d %d %d%s" % (k, 200 + i, p, tg) for i, (k, p) in enumerate(sh)]
        ops += ["eq 0 1", "eq 1 0"]
        cur = dict(pairs)
        # a leaked iter_mut leaves register 1 with a stale heap order (its root is no longer
        # an extreme) while it holds the same set as register 0: they must still compare equal
        stale = n >= 2 and rng.randrange(4) == 0
        if stale:
            k0 = sh[0][0]
            w = (hi + 5) if rng.randrange(2) else -5
            ops += ["itermut 1 direct forget 1 n:%d:-" % w, "chg 0 %d %d" % (k0, w), "eq 0 1", "eq 1 0",
                    "clone 1 2", "eq 1 2", "eq 2 0"]
            cur[k0] = w
        for _ in range(0 if stale else rng.randrange(0, 6)):          # perturb register 1 and come back
            if not cur:
                break
            k = rng.choice(list(cur))
            p = cur[k]
            c = rng.randrange(5)
            if c == 0:
                ops += ["chg 1 %d %d" % (k, p + rng.choice([-60, 60, 1, -1])), "chg 1 %d %d" % (k, p)]
            elif c == 1:
                ops += ["pushinc 1 %d 0 %d" % (k, p + 70), "chgby 1 %d %d" % (k, p)]
            elif c == 2:
                ops += ["remove 1 %d" % k, "push 1 %d 7 %d" % (k, p)]
            elif c == 3:
                ops += ["chgadd 1 %d 90" % k, "chgadd 1 %d -90" % k]
            else:
                ops += ["pushdec 1 %d 0 %d" % (k, p - 70), "push 1 %d 0 %d" % (k, p)]
        ops += ["eq 0 1", "eq 1 0", "eq 1 1"]
        ops += ["clone 0 2", "eq 0 2", "eq 2 1"]
        if cur:                                          # now differ in one priority / one item
            k = rng.choice(list(cur))
            c = rng.randrange(3)
            if c == 0:
                ops += ["chg 2 %d %d" % (k, cur[k] + 1)]
            elif c == 1:
                ops += ["remove 2 %d" % k]
            else:
                ops += ["remove 2 %d" % k, "push 2 %d 0 %d" % (99, cur[k])]
        else:
            ops += ["push 2 5 0 5"]
        ops += ["eq 0 2", "eq 2 0", "eq 2 1", "eq 0 1", "len 0", "len 2"]
        out.append("H %d %d 3\n%s\n" % (hid, hashmode, "\n".join(ops)))
    return "".join(out)


GENERATORS = {"eq_twins": eq_twins}


def big_ops(seed, count, shard, nshards, hashmode=0, focus="all"):
    """size thresholds: bulk strategies, fast paths and capacities that only
    kick in above 1024 / 4096 elements.  `count` = number of sizes to use from
    the list below (each gives 2 kinds x 3 patterns histories); `focus`
    selects the operations the property speaks about."""
    sizes = [1100, 4200, 5000, 9000][:count]
    out = []
    hid = 0
    for n in sizes:
        for kind in ("pq", "dpq"):
            for pat in ("asc", "desc", "rand"):
                hid += 1
                if hid % nshards != shard:
                    continue
                rng = random.Random(seed * 7919 + hid)
                if pat == "asc":
                    pr = list(range(n))
                elif pat == "desc":
                    pr = list(range(n, 0, -1))
                else:
                    pr = [rng.randrange(0, 16) for _ in range(n)]       # many ties
                trip = " ".join("%d %d %d" % (k, 100 + k, p) for k, p in enumerate(pr))
                sides = ["max"] if kind == "pq" else ["min", "max"]
                ops = []
                ctors = {"serde": ["deser"], "sorted": ["fromvec", "deser"], "clear": ["fromvec", "withcap"],
                         "bulk": ["fromvec", "fromiter", "withcap"]}.get(focus, ["fromvec", "fromiter", "deser", "withcap"])
                ctor = rng.choice(ctors)
                if ctor == "fromvec":
                    ops.append("fromvec %s 0 %d %s" % (kind, n, trip))
                elif ctor == "fromiter":
                    ops.append("fromiter %s 0 %d %d %d %s" % (kind, n, n, n, trip))
                elif ctor == "deser":
                    ops.append("deser %s 0 %d %s" % (kind, n, trip))
                else:
                    ops += ["withcap %s 0 %d" % (kind, n + 50), "extend 0 0 - %d %s" % (n, trip)]
                ops += ["len 0"]
                for sd in sides:
                    ops += ["peek 0 " + sd]
                if focus in ("all", "sorted"):
                    for sd in sides:
                        ops += ["sortedvec 0 " + sd]
                    ops += ["sortediter 0 direct count 2 n n", "sortediter 0 direct drop 3 nth:%d s n" % (n - 2)]
                if focus in ("all",):
                    ops += ["debug 0", "iter 0 direct last 1 nth:%d" % (n // 2), "intoiter 0 rev count 0", "intovec 0",
                            "clone 0 1", "eq 0 1", "convert 1", "convert 1", "eq 0 1"]
                if focus in ("all", "serde"):
                    ops += ["serde 0 %s 2" % ("dpq" if kind == "pq" else "pq"), "serde 0 %s 1" % kind]
                    for sd in sides:
                        ops += ["peek 1 " + sd, "pop 1 " + sd, "peek 1 " + sd]
                    ops += ["len 1", "len 2"]
                if focus in ("all", "bulk"):
                    ops += ["clone 0 1"]
                    for sd in sides:
                        ops += ["pop 0 " + sd, "pop 1 " + sd]
                    ops += ["retainmut 1 1 2 3 %d 1 5 - 0" % (n * 2), "len 1"]
                    for sd in sides:
                        ops += ["peek 1 " + sd]
                    ops += ["extend 1 0 - 3 %d 0 1 %d 0 2 3 0 7" % (n + 5, n + 6),
                            "extend 1 %d %d %d %s" % (n, n, n, trip), "append 0 1", "len 0", "len 1", "convert 0"]
                    for sd in ["min", "max"] if kind == "pq" else ["max"]:
                        ops += ["peek 0 " + sd]
                if focus in ("all", "clear"):
                    # capacity-dependent paths of clear / drain
                    ops += ["clone 0 1", "clear 1", "len 1", "isempty 1", "push 1 1 0 1", "pop 1 max",
                            "drain 0 direct forget 2 n b", "len 0", "push 0 2 0 2", "push 0 3 0 1", "pop 0 max",
                            "withcap %s 1 %d" % (kind, n), "push 1 1 0 1", "push 1 2 0 2", "clear 1", "len 1",
                            "push 1 3 0 3", "peek 1 max", "withcap %s 2 %d" % (kind, n), "push 2 1 0 1",
                            "drain 2 direct drop 0", "len 2", "push 2 4 0 4", "pop 2 max"]
                out.append("H %d %d 3\n%s\n" % (hid, hashmode, "\n".join(ops)))
    return "".join(out)


GENERATORS["big_ops"] = big_ops
for _f in ("sorted", "serde", "clear", "bulk"):
    GENERATORS["big_" + _f] = (lambda f: (lambda seed, count, shard, nshards: big_ops(seed, count, shard, nshards, focus=f)))(_f)


def boundary_items(seed, count, shard, nshards, hashmode=0):
    """C12 / C03 at the growth boundaries of the underlying map and at the thresholds
    1024 / 4096: the queue is grown by single pushes to exactly N elements (IndexMap is then
    exactly full for N = 7 * 2^k / 8 ... ), and the keyed updates are applied to already
    queued items given with a different payload - among them the newest element, which sits
    in the last map slot and (all priorities tie) in the last heap position."""
    # (size, built by single pushes?)  Above the thresholds the queue is built by From<Vec>
    # (the extracted model needs quadratic time for n pushes)
    sizes = [(14, True), (28, True), (56, True), (112, True), (224, True), (448, True), (896, True), (1792, True),
             (4096, False), (4100, False), (3584, True)][:count]
    out = []
    hid = 0
    for n, by_push in sizes:
        for kind in ("pq", "dpq"):
            for tie in (True, False):
                hid += 1
                if hid % nshards != shard:
                    continue
                rng = random.Random(seed * 104729 + hid)
                prio = (lambda k: 5) if tie else (lambda k: (k * 7919) % 23)
                if by_push:
                    ops = ["new %s 0" % kind] + ["push 0 %d %d %d" % (k, 1000 + k, prio(k)) for k in range(n)]
                else:
                    ops = ["fromvec %s 0 %d %s" % (kind, n, " ".join("%d %d %d" % (k, 1000 + k, prio(k)) for k in range(n)))]
                last = n - 1
                probes = [last, 0, n // 2, rng.randrange(n)]
                pl = 7
                for k in probes:
                    pl += 1
                    ops += ["push 0 %d %d %d" % (k, pl, prio(k)), "get 0 %d" % k,
                            "pushinc 0 %d %d %d" % (k, pl + 100, prio(k) + 1), "get 0 %d" % k,
                            "pushdec 0 %d %d %d" % (k, pl + 200, prio(k) - 1), "get 0 %d" % k,
                            "chg 0 %d %d" % (k, prio(k)), "chgby 0 %d %d" % (k, prio(k) + 2), "chgadd 0 %d -2" % k,
                            "getmut 0 %d %d" % (k, pl + 300), "get 0 %d" % k]
                ops += ["len 0", "peek 0 max", "push 0 %d 0 9" % n, "push 0 %d 1 9" % n, "get 0 %d" % n, "len 0"]
                out.append("H %d %d 1\n%s\n" % (hid, hashmode, "\n".join(ops)))
    return "".join(out)


GENERATORS["boundary_items"] = boundary_items
