"""Property oracles evaluated on the *implementation's* traces (the search for
a failing input) and the coverage counters written into the evidence."""
import re

class Pv(int):
    """a priority `v` or `v/t`: ordered by the value alone (that is the
    priority type's Ord); `==` and hashing also look at the tag, which makes
    priorities that tie distinguishable (which one was kept / returned)"""

    def __new__(cls, v, tag=0):
        o = int.__new__(cls, v)
        o.tag = tag
        return o

    def __eq__(self, o):
        return int(self) == int(o) and self.tag == getattr(o, "tag", 0)

    def __ne__(self, o):
        return not self.__eq__(o)

    def __hash__(self):
        return hash((int(self), self.tag))

    def __str__(self):
        return "%d/%d" % (int(self), self.tag) if self.tag else "%d" % int(self)

    __repr__ = __str__


def pv(tok):
    if "/" in tok:
        v, t = tok.split("/")
        return Pv(int(v), int(t))
    return Pv(int(tok))


def _ent(e):
    k, pl, p = e.split(":")
    return (int(k), int(pl), pv(p))


STATE_RE = re.compile(r"r(\d+)=(pq|dpq) m=\[([^\]]*)\] h=\[([^\]]*)\] q=\[([^\]]*)\] s=(\d+)")


LIGHT_RE = re.compile(r"r(\d+)=(pq|dpq) .* s=(\d+)$")


def op_tokens(op):
    """tokens of a history line without the `unwinding` prefix (the harness runs the line
    from a destructor during an unrelated unwinding; the operation is the same)"""
    t = op.split()
    return t[1:] if t and t[0] == "unwinding" else t


def split_line(line, light=False):
    """-> (out, ticks, {reg: (kind, entries[(k,pl,p)], heap, qp, size)});
    light: only kind and size are filled in (the cost oracle needs no more, and
    parsing the contents of big queues dominates its running time)"""
    parts = line.split(" ; ")
    out = parts[0]
    ticks = 0
    regs = {}
    for p in parts[1:]:
        if p.startswith("t="):
            ticks = int(p[2:]) if p[2:] != "-" else -1
        elif light:
            m = LIGHT_RE.match(p)
            if m:
                regs[int(m.group(1))] = (m.group(2), [], [], [], int(m.group(3)))
        else:
            m = STATE_RE.match(p)
            if m:
                ents = [_ent(e) for e in m.group(3).split(",") if e]
                heap = [int(x) for x in m.group(4).split(",") if x]
                qp = [int(x) for x in m.group(5).split(",") if x]
                regs[int(m.group(1))] = (m.group(2), ents, heap, qp, int(m.group(6)))
    return out, ticks, regs


def state_part(line):
    i = line.find(" ; r")
    return line[i:] if i >= 0 else ""


def read_histories(path):
    cur = None
    with open(path) as f:
        for line in f:
            line = line.rstrip("\n")
            if not line:
                continue
            if line.startswith("H "):
                if cur:
                    yield cur
                cur = (line.split()[1], line, [])
            else:
                cur[2].append(line)
    if cur:
        yield cur


def read_traces(path):
    d, cur = {}, None
    with open(path) as f:
        for line in f:
            line = line.rstrip("\n")
            if line.startswith("H "):
                cur = []
                d[line.split()[1]] = cur
            elif cur is not None:
                cur.append(line)
    return d


def coverage_of(hist, trace, distinct, opcount, samples):
    """returns (steps, histories, max queue size); updates the shared counters"""
    tr = read_traces(trace)
    steps = nh = maxsize = 0
    for hid, header, ops in read_histories(hist):
        lines = tr.get(hid, [])
        nh += 1
        prev = ""
        for op, line in zip(ops, lines):
            steps += 1
            tok = op_tokens(op)[0]
            if tok == "fuse":
                tok = "fuse+" + op_tokens(op)[2]
            opcount[tok] = opcount.get(tok, 0) + 1
            st = state_part(line)
            if st != prev or not line.startswith("unit"):
                distinct.add(hash((prev, op)))
            prev = st
            for m in re.finditer(r" s=(\d+)", st):
                maxsize = max(maxsize, int(m.group(1)))
        if len(samples) < 3 and len(ops) >= 3:
            k = min(len(ops), 8)
            samples.append(dict(history=[header] + ops[:k], implementation_trace=lines[:k]))
    return steps, nh, maxsize


# ----------------------------------------------------------------------------- structural checks
def wf_violation(reg):
    kind, ents, heap, qp, size = reg
    n = size
    if not (len(ents) == n and len(heap) == n and len(qp) == n):
        return "lengths disagree: map %d heap %d qp %d size %d" % (len(ents), len(heap), len(qp), n)
    for p, i in enumerate(heap):
        if not (0 <= i < n) or qp[i] != p:
            return "heap/qp not inverse at position %d" % p
    keys = [e[0] for e in ents]
    if len(set(keys)) != len(keys):
        return "duplicate key stored"
    return None


def level(i):
    return (i + 1).bit_length() - 1


def order_violation(reg):
    kind, ents, heap, qp, size = reg
    pr = [ents[i][2] for i in heap]
    n = len(pr)
    if kind == "pq":
        for c in range(1, n):
            if pr[c] > pr[(c - 1) // 2]:
                return "max-heap order broken at position %d" % c
    else:
        for c in range(1, n):
            for a in ([(c - 1) // 2] + ([((c - 1) // 2 - 1) // 2] if (c - 1) // 2 > 0 else [])):
                if level(a) % 2 == 0:
                    if pr[a] > pr[c]:
                        return "min-max order broken between %d and %d" % (a, c)
                elif pr[a] < pr[c]:
                    return "min-max order broken between %d and %d" % (a, c)
    return None


def parse_elem(tok):
    if tok == "-":
        return None
    return _ent(tok)


class Oracle:
    """structural oracle shared by the properties: well-formed tables, heap
    order (unless an iter_mut guard was leaked), extremes reported by
    peek/pop, no fault lines.  `want` selects which findings count for the
    property."""

    def __init__(self, want, strict_late=False):
        self.want = want
        self.light = not (set(want) & {"wf", "order", "extreme", "sorted"})
        # known finding F8 (known_findings.json): a priority written through a reference that
        # outlived its iter_mut iterator is never re-sifted.  Registers in that condition are
        # excluded from the order / extreme judgements (strict_late: judged all the same, used
        # to confirm that the listed finding still reproduces on its witness)
        self.strict_late = strict_late

    def start(self, header):
        self.prev = {}
        self.unordered = set()

    def step(self, op, line):
        out, ticks, regs = split_line(line, self.light)
        toks = op_tokens(op)
        if toks[0] == "fuse":
            toks = toks[2:]
            fused = True
        else:
            fused = False
        name = toks[0]
        why = None
        if out.startswith("fault") and not fused and "fault" in self.want:
            why = "operation %r ended in %s" % (op, out)
        if out == "capfail" and "cap" in self.want:
            why = "capacity post-condition failed"
        if why is None and "wf" in self.want and not fused:
            for r, reg in regs.items():
                w = wf_violation(reg)
                if w:
                    why = "register %d: %s" % (r, w)
                    break
        # leaked iter_mut guards leave the order unspecified until the next rebuild
        if out == "invalid" or out.startswith("fault"):
            pass
        elif name == "itermut" and "forget" in toks[3:4]:
            self.unordered.add(int(toks[1]))
        elif name == "latewrite":
            if not self.strict_late:
                self.unordered.add(int(toks[1]))
        elif name in ("retain", "retainmut", "convert", "clear", "drain", "new", "fromvec", "fromiter",
                      "deser", "withcap") or (name == "itermut" and "forget" not in toks[3:4]):
            self.unordered.discard(int(toks[2]) if name in ("new", "fromvec", "fromiter", "deser", "withcap") else int(toks[1]))
        elif name == "append":
            self.unordered.discard(int(toks[1]))
        elif name in ("clone", "clonefrom"):
            # a clone is exactly as (un)ordered as its source
            if int(toks[1]) in self.unordered:
                self.unordered.add(int(toks[2]))
            else:
                self.unordered.discard(int(toks[2]))
        elif name == "serde":
            self.unordered.discard(int(toks[3]))
        if fused or out == "unwound":
            # after a caught panic nothing but safety is promised
            for r in regs:
                self.unordered.add(r)
        if why is None and "order" in self.want:
            for r, reg in regs.items():
                if r in self.unordered or wf_violation(reg):
                    continue
                w = order_violation(reg)
                if w:
                    why = "register %d after %r: %s" % (r, op, w)
                    break
        if why is None and "extreme" in self.want and name in ("peek", "pop") and not fused:
            r = int(toks[1])
            before = self.prev.get(r)
            if before is not None and r not in self.unordered and out.startswith("opte"):
                e = parse_elem(out.split()[1])
                ents = before[1]
                if not ents:
                    if e is not None:
                        why = "%s on an empty queue returned %s" % (name, out)
                elif e is None:
                    why = "%s on a non-empty queue returned None" % name
                else:
                    prios = [x[2] for x in ents]
                    side = toks[2]
                    if e not in ents:
                        why = "%s returned %s which is not stored" % (name, out)
                    elif side == "max" and int(e[2]) != int(max(prios)):
                        why = "%s max returned priority %d but %d is stored" % (name, e[2], max(prios))
                    elif side == "min" and int(e[2]) != int(min(prios)):
                        why = "%s min returned priority %d but %d is stored" % (name, e[2], min(prios))
        if why is None and "sorted" in self.want and name == "sortedvec" and out.startswith("list") and not fused:
            r = int(toks[1])
            before = self.prev.get(r)
            if before is not None and r not in self.unordered:
                body = out[6:-1]
                lst = [parse_elem(x) for x in body.split(",") if x]
                ps = [x[2] for x in lst]
                asc = toks[2] == "min"
                if sorted(lst) != sorted(before[1]):
                    why = "sortedvec is not a permutation of the contents"
                elif any((a > b) if asc else (a < b) for a, b in zip(ps, ps[1:])):
                    why = "sortedvec is not monotone: %s" % ps
        self.prev = regs
        return why


def run_oracle(orc, hist, trace):
    """first violation of the oracle in a (history file, implementation trace file) pair"""
    tr = read_traces(trace)
    for hid, header, ops in read_histories(hist):
        lines = tr.get(hid, [])
        orc.start(header)
        for k, (op, line) in enumerate(zip(ops, lines)):
            why = orc.step(op, line)
            if why:
                return dict(header=header, ops=ops[: k + 1], step=k, why=why, impl=line)
    return None


def fails_on(orc, header, ops, runner):
    """does the oracle still fail on this (shortened) history?  runner runs both sides"""
    impl, _model = runner(header, ops, "min")
    orc.start(header)
    for op, line in zip(ops, impl):
        if orc.step(op, line):
            return True
    return False


def matches_known(violation, known):
    pat = known.get("match")
    return bool(pat) and re.search(pat, " ".join(violation.get("ops", [])) + " || " + str(violation.get("why"))) is not None


ALL = ("fault", "wf", "order", "extreme", "sorted", "cap")
ORACLES = {
    "C01": Oracle(("fault", "wf", "order", "extreme")),
    "C02": Oracle(("fault", "wf", "order", "extreme")),
    "C03": Oracle(("fault", "wf")),
    "C04": Oracle(("fault", "wf")),
    "C05": Oracle(("fault",)),
    "C06": Oracle(("fault", "wf", "order", "sorted")),
    "C07": Oracle(("fault", "wf", "order")),
    "C08": Oracle(("fault", "wf", "order", "extreme")),
    "C09": Oracle(("fault", "wf")),
    "C10": None,  # decided by the fault classification in pqv (caught panics may leave any safe state)
    "C11": Oracle(("fault", "wf", "order")),
    "C12": Oracle(("fault", "wf")),
    "C13": Oracle(("fault", "wf")),
    "C14": Oracle(("fault", "wf")),
    "C15": Oracle(("fault", "wf", "order")),
    "C16": Oracle(("fault", "wf")),
    "C17": Oracle(("fault", "wf", "cap")),
    "C18": Oracle(("fault", "wf")),
}


# ----------------------------------------------------------------------------- C10: faults after caught panics
SIFT_UP_OPS = ("push", "pushinc", "pushdec", "chg", "chgby", "chgadd", "remove", "popif", "extend", "fromiter")
RETAIN_OPS = ("retain", "retainmut")


def classify_fault(ops, lines, k):
    """a fault at step k of a history: which step first left tables that are
    not well-formed?  Returns (class key or None, step of the culprit)"""
    for j in range(min(k, len(lines))):
        _, _, regs = split_line(lines[j])
        if any(wf_violation(r) for r in regs.values()):
            toks = op_tokens(ops[j])
            name = toks[2] if toks[0] == "fuse" else toks[0]
            if not lines[j].startswith("unwound"):
                return "not-an-unwinding:" + name, j
            if name in SIFT_UP_OPS:
                return "sift_up.unwind", j
            if name in RETAIN_OPS:
                return "retain.predicate.unwind", j
            return "other.unwind:" + name, j
    return None, None


def classify_silent_tail(ev):
    """the implementation aborted somewhere in the part of a history that is
    executed silently after a caught panic inside retain (the model does not
    describe IndexMap's stale index there).  The culprit can only be narrowed
    down to the fused operations of that tail."""
    cls, j = classify_fault(ev["ops"], ev["lines"], ev["step"])
    if cls is not None:
        return cls, j
    for j in range(ev["step"], len(ev["all_ops"])):
        toks = op_tokens(ev["all_ops"][j])
        if toks[0] == "fuse":
            if toks[2] in SIFT_UP_OPS:
                return "sift_up.unwind", j
            if toks[2] in RETAIN_OPS:
                return "retain.predicate.unwind", j
    return None, None


def compare_fault_tolerant(hist, it, mt):
    """C10 comparison: lines must agree up to the first fault of a history;
    returns (first real divergence or None, list of fault events)"""
    ti, tm = read_traces(it), read_traces(mt)
    diverged, events = None, []
    for hid, header, ops in read_histories(hist):
        a, b = ti.get(hid, []), tm.get(hid, [])
        n = max(len(a), len(b))
        for k in range(n):
            la = a[k] if k < len(a) else None
            lb = b[k] if k < len(b) else None
            fa = la is not None and la.startswith("fault")
            fb = lb is not None and lb.startswith("fault")
            if fa or fb:
                # after a safe panic that follows a caught one the harness keeps executing
                # silently; an abort further on appears as one more `fault ub` line
                later = [x for x in a[k + 1:] if x.startswith("fault ub") or x.startswith("fault fuel")]
                events.append(dict(header=header, ops=ops[: k + 1] if not later else ops, step=k,
                                   impl=later[0] if later else la, model=lb,
                                   lines=a[:k], all_ops=ops))
                break
            if la != lb:
                if diverged is None:
                    diverged = dict(id=hid, header=header, ops=ops, step=k,
                                    op=ops[k] if k < len(ops) else None,
                                    impl=la or "<missing>", model=lb or "<missing>")
                # the model no longer describes this history; an abort / out-of-bounds
                # access of the implementation further on is a failing input all the same
                hard = [k2 for k2 in range(k, len(a)) if a[k2].startswith(("fault ub", "fault fuel"))]
                soft = [k2 for k2 in range(k, len(a)) if a[k2].startswith("fault")]
                if hard or soft:
                    k2 = (hard or soft)[0]
                    events.append(dict(header=header, ops=ops if hard else ops[: k2 + 1], step=k2, impl=a[k2],
                                       model="(diverged at step %d)" % k, lines=a[:min(k2, len(ops))], all_ops=ops))
                break
    return diverged, events


# ----------------------------------------------------------------------------- contents oracle (C03 / C07 / C11 / C12 ...)
def _parse_list(body):
    return [parse_elem(x) for x in body.split(",") if x]


class ContentOracle(Oracle):
    """one-step refinement check on the implementation's own trace: from the
    contents printed before an operation and the operation itself, what must
    the contents and the returned value be afterwards?  (item -> priority map
    semantics, payload = the part of the item outside Eq/Hash.)  Choices the
    specification leaves open (which of several equal extremes, which strategy
    extend takes) are resolved by what the implementation did and then checked
    to be allowed."""

    def __init__(self, want):
        Oracle.__init__(self, want)
        self.unspec = set()

    def start(self, header):
        Oracle.start(self, header)
        self.unspec = set()

    def step(self, op, line):
        before = dict(self.prev)
        why = Oracle.step(self, op, line)   # updates self.prev / self.unordered
        if why:
            return why
        out, ticks, regs = split_line(line)
        toks = op_tokens(op)
        fused = toks[0] == "fuse"
        if fused:
            toks = toks[2:]
        name = toks[0] if toks else ""
        # After a caught panic or a leaked iter_mut the properties promise safety only
        # ("the order and even the reported length may be unspecified", C10): the contents
        # of the registers involved are not judged until something re-creates them.
        # (drain is different: C16 specifies the queue after a leaked Drain.)
        skip = fused or out in ("invalid", "unwound") or out.startswith("fault")
        touched = set()
        try:
            if name in ("new", "withcap", "fromvec", "fromiter", "deser"):
                touched = {int(toks[2])}
            elif name == "serde":
                touched = {int(toks[1]), int(toks[3])}
            elif name in ("append", "clone", "clonefrom", "eq"):
                touched = {int(toks[1]), int(toks[2])}
            elif len(toks) > 1:
                touched = {int(toks[1])}
        except ValueError:
            touched = set()
        if out == "invalid":
            return None
        if fused or out == "unwound" or out.startswith("fault"):
            self.unspec |= touched
            return None
        if name == "itermut" and "forget" in toks[3:4]:
            self.unspec |= touched
            return None
        if touched & self.unspec:
            # an operation that re-creates the register's contents ends the unspecified stretch
            if name in ("new", "withcap", "fromvec", "fromiter", "deser", "clear", "drain"):
                self.unspec -= touched if name in ("clear", "drain") else {int(toks[2])}
            elif name in ("clone", "clonefrom", "serde", "append"):
                self.unspec |= touched       # a copy / merge of something unspecified
                return None
            else:
                return None
        if skip:
            return None
        try:
            return self.check(toks, out, before, regs)
        except (IndexError, ValueError, KeyError):
            return None

    @staticmethod
    def ents(regs, r):
        return list(regs[r][1]) if r in regs else None

    def check(self, t, out, before, after):
        name = t[0]
        if name in ("new", "withcap", "fromvec", "fromiter", "deser"):
            r = int(t[2])
            got = self.ents(after, r)
            if name in ("new", "withcap"):
                return None if got == [] else "%s left contents %s" % (name, got)
            n = int(t[3]) if name != "fromiter" else int(t[5])
            base = 4 if name != "fromiter" else 6
            l = [(int(t[base + 3 * i]), int(t[base + 3 * i + 1]), pv(t[base + 3 * i + 2])) for i in range(n)]
            # what the properties fix: From<Vec> keeps the FIRST priority given for an item,
            # FromIterator the LAST (C07); a deserialized sequence keeps ONE of the priorities
            # given (C15).  Which of several Eq-equal item values is stored is not specified.
            given = {}
            for k, pl, p in l:
                given.setdefault(k, []).append((pl, p))
            gm = {k: (pl, p) for k, pl, p in got}
            if len(gm) != len(got):
                return "after %s an item is stored twice" % name
            if set(gm) != set(given):
                return "after %s the stored items are %s, the input names %s" % (name, sorted(gm)[:6], sorted(given)[:6])
            for k, (pl, p) in gm.items():
                pls = [x[0] for x in given[k]]
                ps = [x[1] for x in given[k]]
                if pl not in pls:
                    return "after %s item %d carries a payload the input never gave it" % (name, k)
                want = [ps[0]] if name == "fromvec" else [ps[-1]] if name == "fromiter" else ps
                if not any(p == w for w in want):
                    return "after %s item %d has priority %s; the input allows %s" % (name, k, p, [str(w) for w in want])
            return None
        r = int(t[1])
        b = self.ents(before, r)
        a = self.ents(after, r)
        if b is None or a is None:
            return None
        bm = {k: (pl, p) for k, pl, p in b}
        unordered = r in self.unordered

        def ext(side):
            ps = [p for (_, p) in bm.values()]
            return (max(ps) if side == "max" else min(ps)) if ps else None

        if name in ("push", "pushinc", "pushdec"):
            k, pl, p = int(t[2]), int(t[3]), pv(t[4])
            exp = dict(bm)
            if k not in bm:
                exp[k] = (pl, p)
                want = "optp -"
            else:
                opl, op_ = bm[k]
                do = name == "push" or (name == "pushinc" and p > op_) or (name == "pushdec" and p < op_)
                if do:
                    exp[k] = (opl, p)
                    want = "optp %s" % op_
                else:
                    want = "optp %s" % p
            if out != want:
                return "%s returned %r, the map semantics gives %r" % (name, out, want)
            return self.same(a, exp, name)
        if name in ("chg", "chgby", "chgadd"):
            k, v = int(t[2]), pv(t[3])
            exp = dict(bm)
            if k in bm:
                opl, op_ = bm[k]
                exp[k] = (opl, Pv(int(op_) + int(v), op_.tag) if name == "chgadd" else v)
                want = ("optp %s" % op_) if name == "chg" else "bool 1"
            else:
                want = "optp -" if name == "chg" else "bool 0"
            if out != want:
                return "%s returned %r, expected %r" % (name, out, want)
            return self.same(a, exp, name)
        if name == "remove":
            k = int(t[2])
            exp = dict(bm)
            want = "opte -"
            if k in bm:
                want = "opte %d:%d:%s" % ((k,) + bm[k])
                del exp[k]
            if out != want:
                return "remove returned %r, expected %r" % (out, want)
            return self.same(a, exp, name)
        if name in ("get", "getprio", "getmut"):
            k = int(t[2])
            exp = dict(bm)
            if name == "getmut" and k in bm:
                exp[k] = (int(t[3]), bm[k][1])
            if k in bm:
                pl, p = exp[k]
                want = ("optp %s" % p) if name == "getprio" else "opte %d:%d:%s" % (k, pl, p)
            else:
                want = "optp -" if name == "getprio" else "opte -"
            if out != want:
                return "%s returned %r, expected %r" % (name, out, want)
            return self.same(a, exp, name)
        if name == "latewrite":
            exp = dict(bm)
            if b and t[2] != "-":
                k0, pl0, _ = b[0]
                exp[k0] = (pl0, pv(t[2]))
            return self.same(a, exp, name)
        if name == "len":
            return None if out == "nat %d" % len(bm) else "len returned %r for %d items" % (out, len(bm))
        if name == "isempty":
            return None if out == "bool %d" % (0 if bm else 1) else "is_empty wrong"
        if name in ("pop", "peekmut", "popif") and not unordered:
            side = t[2]
            e = parse_elem(out.split()[1]) if out.startswith("opte") else None
            x = ext(side)
            exp = dict(bm)
            if name == "pop":
                if x is None:
                    return None if e is None else "pop on empty returned %r" % out
                if e is None or e[0] not in bm or bm[e[0]] != (e[1], e[2]) or int(e[2]) != int(x):
                    return "pop %s returned %r which is not a stored %s" % (side, out, side)
                del exp[e[0]]
                return self.same(a, exp, name)
            if name == "peekmut":
                npl = int(t[3])
                if x is None:
                    return None if e is None else "peek_mut on empty returned %r" % out
                if e is None or e[0] not in bm or bm[e[0]][1] != e[2] or int(e[2]) != int(x) or e[1] != npl:
                    return "peek_%s_mut returned %r, not a stored %s with the written payload" % (side, out, side)
                exp[e[0]] = (npl, e[2])
                return self.same(a, exp, name)
            if name == "popif":
                w, pl, bb = t[3], t[4], t[5] == "1"
                if x is None:
                    return None if e is None else "pop_if on empty returned %r" % out
                cands = [k for k, (_, p) in bm.items() if int(p) == int(x)]
                for k in cands:
                    opl, op_ = bm[k]
                    wr = (int(pl) if pl != "-" else opl, pv(w) if w != "-" else op_)
                    exp = dict(bm)
                    if bb:
                        del exp[k]
                        ok = e == (k,) + wr
                    else:
                        exp[k] = wr
                        ok = e is None
                    if ok and self.same(a, exp, name) is None:
                        return None
                return "pop_if %s: no stored %s element explains the result %r and the new contents" % (side, side, out)
        if name in ("retain", "retainmut"):
            d = t[2] == "1"
            n = int(t[3])
            tbl = {}
            for i in range(n):
                if name == "retain":
                    tbl.setdefault(int(t[4 + 2 * i]), (None, t[5 + 2 * i] == "1"))  # first entry wins
                else:
                    wv = t[5 + 3 * i]
                    tbl.setdefault(int(t[4 + 3 * i]), (None if wv == "-" else pv(wv), t[6 + 3 * i] == "1"))
            exp = {}
            for k, (pl, p) in bm.items():
                wv, keep = tbl.get(k, (None, d))
                if keep:
                    exp[k] = (pl, p if wv is None else wv)
            return self.same(a, exp, name)
        if name == "extend":
            n = int(t[4])
            l = [(int(t[5 + 3 * i]), int(t[6 + 3 * i]), pv(t[7 + 3 * i])) for i in range(n)]
            exp = {k: p for k, (pl, p) in bm.items()}
            for k, pl, p in l:
                exp[k] = p
            got = {k: p for k, pl, p in a}
            if got != exp or len(a) != len(got):
                return "extend: item -> priority map is %s, expected %s" % (sorted(got.items()), sorted(exp.items()))
            return None
        if name == "append":
            s2 = int(t[2])
            o = self.ents(before, s2)
            if o is None or before[r][0] != before.get(s2, (None,))[0]:
                return None
            om = {k: (pl, p) for k, pl, p in o}
            # on a clash the receiver's entry stays unless the other queue was longer, when either may stay (C07)
            gm = {k: (pl, p) for k, pl, p in a}
            if len(gm) != len(a):
                return "after append an item is stored twice"
            if set(gm) != set(bm) | set(om):
                return "after append the stored items are not the union of the two queues"
            for k, e in gm.items():
                allowed = [bm[k]] if k in bm else []
                if k in om and (k not in bm or len(om) > len(bm)):
                    allowed.append(om[k])
                if e not in allowed:
                    return "after append item %d is stored as %s; allowed: %s" % (k, e, allowed)
            return None if self.ents(after, s2) == [] else "append left the other queue non-empty"
        if name in ("clear", "drain"):
            return None if a == [] else "%s left %d elements" % (name, len(a))
        if name == "eq":
            o = self.ents(before, int(t[2]))
            if o is not None and before[r][0] == before[int(t[2])][0]:
                same = {k: int(p) for k, pl, p in b} == {k: int(p) for k, pl, p in o}  # PartialEq of P: the value
                if out != "bool %d" % (1 if same else 0):
                    return "eq returned %r for queues whose (item, priority) sets are %s" % (out, "equal" if same else "different")
        if name in ("clone", "clonefrom") and out == "unit":
            d = self.ents(after, int(t[2]))
            if d is not None and sorted(d) != sorted(b):
                return "%s: the copy holds %s, the source %s" % (name, sorted(d)[:4], sorted(b)[:4])
        if name in ("peek", "iter", "intoiter", "sortediter", "sortedvec", "intovec", "eq", "clone", "clonefrom",
                    "reserve", "reservex", "tryreserve", "tryreservex", "shrink", "capacity", "convert", "serde"):
            if name == "serde":
                return None
            return self.same(a, bm, name)
        return None

    @staticmethod
    def same(got, exp, name):
        gm = {k: (pl, p) for k, pl, p in got}
        if len(gm) != len(got):
            return "after %s an item is stored twice" % name
        if gm != exp:
            diff = sorted(set(gm.items()) ^ set(exp.items()))[:4]
            return "after %s the contents differ from the item -> (payload, priority) map semantics: %s" % (name, diff)
        return None


for _p, _w in (("C03", ("fault", "wf")), ("C07", ("fault", "wf", "order")), ("C11", ("fault", "wf", "order")),
               ("C12", ("fault", "wf")), ("C08", ("fault", "wf", "order", "extreme")), ("C14", ("fault", "wf")),
               ("C15", ("fault", "wf", "order")), ("C16", ("fault", "wf")), ("C17", ("fault", "wf", "cap")),
               ("C18", ("fault", "wf"))):
    ORACLES[_p] = ContentOracle(_w)


# ----------------------------------------------------------------------------- C05: comparison counts
def lg(n):
    return n.bit_length() - 1 if n > 0 else 0


class CostOracle(Oracle):
    """comparison counts of the implementation against the proved bounds
    (the per-operation statements of OpSpec.v: pq_*_stmt / dpq_*_stmt)"""

    SINGLE_PQ = {"push": lambda n: 3 * lg(n + 1) + 4, "pushinc": lambda n: 3 * lg(n + 1) + 5,
                 "pushdec": lambda n: 3 * lg(n + 1) + 5, "chg": lambda n: 3 * lg(n) + 4,
                 "chgby": lambda n: 3 * lg(n) + 4, "chgadd": lambda n: 3 * lg(n) + 4,
                 "remove": lambda n: 3 * lg(n) + 4, "pop": lambda n: 2 * lg(n) + 2,
                 "popif": lambda n: 2 * lg(n) + 2}
    SINGLE_DPQ = {"push": lambda n: 9 * lg(n + 1) + 20, "pushinc": lambda n: 9 * lg(n + 1) + 21,
                  "pushdec": lambda n: 9 * lg(n + 1) + 21, "chg": lambda n: 9 * lg(n) + 20,
                  "chgby": lambda n: 9 * lg(n) + 20, "chgadd": lambda n: 9 * lg(n) + 20,
                  "remove": lambda n: 9 * lg(n) + 20, "pop": lambda n: 4 * lg(n) + 9,
                  "popif": lambda n: 9 * lg(n) + 21}
    ZERO = ("len", "isempty", "get", "getprio", "getmut", "capacity", "reserve", "reservex", "tryreserve",
            "tryreservex", "shrink", "clear", "intovec", "clone", "eq", "new", "withcap", "iter",
            "intoiter", "drain")

    def __init__(self):
        Oracle.__init__(self, ("fault",))

    def step(self, op, line):
        before = dict(self.prev)
        why = Oracle.step(self, op, line)
        if why:
            return why
        out, ticks, regs = split_line(line, True)
        t = op_tokens(op)
        if t[0] == "fuse" or out in ("invalid", "unwound") or out.startswith("fault") or ticks < 0:
            return None
        name = t[0]

        def size(rs, r):
            return rs[r][4] if r in rs else 0

        def kind(rs, r):
            return rs[r][0] if r in rs else None
        bound = None
        try:
            if name in self.ZERO:
                bound = 0
            elif name in self.SINGLE_PQ:
                r = int(t[1])
                k = kind(before, r)
                if k is not None:
                    bound = (self.SINGLE_PQ if k == "pq" else self.SINGLE_DPQ)[name](size(before, r))
            elif name in ("peek", "peekmut"):
                r = int(t[1])
                bound = 1 if (kind(before, r) == "dpq" and t[2] == "max") else 0
            elif name in ("retain", "retainmut", "itermut", "convert"):
                r = int(t[1])
                k = kind(regs, r) or kind(before, r)
                bound = (4 if k == "pq" else 16) * size(before, r)
            elif name in ("fromvec", "fromiter", "deser"):
                r = int(t[2])
                bound = (4 if t[1] == "pq" else 16) * size(regs, r)
            elif name == "serde":
                bound = (4 if t[2] == "pq" else 16) * size(regs, int(t[3]))
            elif name == "append":
                r = int(t[1])
                bound = (4 if kind(before, r) == "pq" else 16) * size(regs, r)
        except (IndexError, ValueError, KeyError):
            bound = None
        if bound is not None and ticks > bound:
            return "%s made %d priority comparisons; the proved bound for the sizes involved is %d" % (name, ticks, bound)
        return None


ORACLES["C05"] = CostOracle()
