"""Per-property tables: pinned theorems (Properties.v), history generators."""
import json
import os

import pqv_bign

_T = json.load(open(os.path.join(os.path.dirname(os.path.abspath(__file__)), "pqv_theorems.json")))


def theorems_of(prop):
    return [t for t in _T if t["prop"] == prop]


TRUSTED_BASE = [
    "Coq 8.16.1 kernel (coqc, full .vo build; vm_compute only in Witnesses/cross-checks; no native_compute)",
    "axioms: none (Print Assumptions of every pinned theorem must say 'Closed under the global context')",
    "libraries: Coq stdlib, std++ 1.8.0",
    "extraction: ExtrOcamlBasic only (bool, option, list, pair, unit, sumbool mapped to OCaml's), no Extract Constant; OCaml 4.13 ocamlopt; ocaml/driver.ml (parser/printer)",
    "hand-written model coq/theories/{Base,Store,PQ,DPQ,Iter,Machine}.v: faithfulness is CHECKED on every run by the step-by-step trace comparison with the implementation, to the extent of the explored histories",
    "modelled, not verified: IndexMap (ordered-map semantics), Vec, std iterator adaptors, serde/serde_json, allocator, unwinding",
    "harness (harness/src): instrumented Ord/Eq/Hash types, snapshot hook src/verif.rs under cfg(priority_queue_verif), rustc debug assertions as detector of out-of-bounds unchecked accesses",
    "usize positions do not overflow (Vec length <= isize::MAX/8)",
]


def rnd(kind, profile, count, length, prios="small", keys=12, hashmode=0, exclude="", boost=""):
    a = ["random", "--seed", "{seed}", "--count", str(count), "--len", str(length),
         "--kind", kind, "--profile", profile, "--keys", str(keys), "--prios", prios,
         "--hashmode", str(hashmode)]
    if exclude:
        a += ["--exclude", exclude]
    if boost:
        a += ["--boost", boost]
    return dict(args=a)


# iterator kinds other than the one a property is about
NOT_ITERMUT = "iter,intoiter,drain,sortediter"
NO_ITERS = "itermut,iter,intoiter,drain,sortediter"


def pygen(name, count):
    return dict(args=["py", name, "{seed}", str(count)])


def bfs(kind, nkeys, nprios):
    """closure of the raw states of one queue over nkeys items x nprios priorities, every op from every state"""
    return dict(args=["bfs", kind, str(nkeys), str(nprios)])


def builds(kind, maxn, prios=3):
    return dict(args=["builds", "--kind", kind, "--maxn", str(maxn), "--prios", str(prios)])


def tiers(quick, thorough_extra):
    return dict(quick=quick, thorough=quick + thorough_extra)


PROPS = {
    # drop: fields of the trace lines this property does NOT compare ('t' = comparison counts, 'hq' = raw tables)
    "C01": dict(
        theorems=None, impl_search=pqv_bign.huge("pq", "order,extreme,ops,bulk,inplace"), drop=["t"],
        gens=tiers(
            [bfs("pq", 3, 3), builds("pq", 5), rnd("pq", "core", 2000, 60), rnd("pq", "bulk", 1000, 60, exclude="serde,deser,eq"),
             rnd("pq", "iter", 800, 50, exclude=NOT_ITERMUT), rnd("pq", "core", 500, 40, prios="extreme"),
             rnd("pq", "core", 300, 300, keys=80, prios="wide")],
            [bfs("pq", 4, 2), builds("pq", 7), rnd("pq", "all", 20000, 80), rnd("pq", "core", 2000, 600, keys=300, prios="wide")]),
    ),
    "C02": dict(
        theorems=None, impl_search=pqv_bign.huge("dpq", "order,extreme,ops,bulk,inplace"), drop=["t"],
        gens=tiers(
            [bfs("dpq", 3, 3), builds("dpq", 5), rnd("dpq", "core", 2000, 60), rnd("dpq", "bulk", 1000, 60, exclude="serde,deser,eq"),
             rnd("dpq", "iter", 800, 50, exclude=NOT_ITERMUT), rnd("dpq", "core", 500, 40, prios="extreme"),
             rnd("dpq", "core", 300, 300, keys=80, prios="wide")],
            [bfs("dpq", 4, 2), builds("dpq", 7), rnd("dpq", "all", 20000, 80), rnd("dpq", "core", 2000, 600, keys=300, prios="wide")]),
    ),
    "C03": dict(
        theorems=None, impl_search=pqv_bign.huge("both", "content,ops,bulk,inplace"), drop=["t", "hq"],
        gens=tiers(
            [rnd("both", "core", 3000, 60), rnd("both", "core", 1000, 60, prios="wide", keys=30),
             rnd("both", "bulk", 1000, 50, exclude="serde,deser,eq,convert"), builds("pq", 4), builds("dpq", 4),
             rnd("both", "iter", 1500, 40, exclude="sortediter")],
            [rnd("both", "all", 20000, 80), builds("pq", 6), builds("dpq", 6)]),
    ),
    "C04": dict(
        theorems=None, impl_search=pqv_bign.zst_search, drop=["t"],
        gens=tiers(
            [rnd("both", "all", 3000, 60), rnd("both", "iter", 1500, 50), rnd("both", "core", 500, 300, keys=100, prios="wide"),
             builds("pq", 4), builds("dpq", 4), bfs("pq", 3, 2), bfs("dpq", 3, 2)],
            [rnd("both", "all", 30000, 80), builds("pq", 6), builds("dpq", 6)]),
    ),
    "C05": dict(
        theorems=None, impl_search=pqv_bign.search,
        gens=tiers(
            [rnd("both", "core", 200, 1500, keys=1000, prios="wide"),
             rnd("both", "bulk", 300, 200, keys=200, prios="wide", exclude="serde,deser,eq,sortedvec,intovec,extend"),
             rnd("both", "core", 1500, 60), rnd("both", "iter", 300, 60, exclude=NOT_ITERMUT)],
            [rnd("both", "core", 400, 6000, keys=4000, prios="wide"), rnd("both", "all", 10000, 80)]),
    ),
    "C06": dict(
        theorems=None, impl_search=pqv_bign.huge("both", "sorted"), drop=["t", "hq"],
        gens=tiers(
            [rnd("both", "iter", 2500, 50, exclude="itermut,iter,intoiter,drain", boost="sortediter:3"),
             # sorted consumption of queues that went through in-place mutation from either end
             rnd("both", "iter", 1500, 50, exclude="iter,intoiter,drain", boost="sortediter:3,itermut:2"),
             rnd("both", "bulk", 1000, 50, exclude="serde,deser,eq,intovec", boost="sortedvec:6,retainmut:3"),
             # deeper heaps (up to 40 elements) with keyed updates before the sorted consumption
             rnd("both", "iter", 500, 120, keys=40, prios="wide", exclude="itermut,iter,intoiter,drain", boost="sortediter:3,chg:4,pushinc:3,pushdec:3,remove:2"),
             builds("pq", 4), builds("dpq", 5), pygen("big_sorted", 2)],
            [rnd("both", "iter", 20000, 80, exclude="itermut,iter,intoiter,drain", boost="sortediter:3"), builds("dpq", 7), pygen("big_sorted", 4)]),
    ),
    "C07": dict(
        theorems=None, impl_search=pqv_bign.huge("both", "content,order,extreme,bulk"), drop=["t"],
        gens=tiers(
            [rnd("both", "bulk", 4000, 50, exclude="serde,deser,eq,retain,retainmut,sortedvec,intovec,clone"),
             rnd("both", "bulk", 800, 120, keys=60, prios="wide", exclude="serde,deser,eq,retain,retainmut,sortedvec,intovec,clone"),
             pygen("big_bulk", 2)],
            [rnd("both", "bulk", 30000, 80, exclude="serde,deser,eq,retain,retainmut")]),
    ),
    "C08": dict(
        theorems=None, impl_search=pqv_bign.huge("both", "content,order,extreme,inplace"), drop=["t"],
        gens=tiers(
            [rnd("both", "iter", 2500, 50, exclude=NOT_ITERMUT, boost="popif:4"),
             rnd("both", "bulk", 1500, 50, exclude="serde,deser,eq,fromvec,fromiter,extend,append,convert,clone,sortedvec,intovec", boost="retain:4,retainmut:4,popif:3"),
             # retain / pop_if / iter_mut on queues in every reachable condition (also after a leaked iter_mut)
             rnd("both", "all", 2000, 50, exclude="serde,deser,sortedvec,intovec,iter,intoiter,sortediter", boost="itermut:6,retain:8,retainmut:6,popif:4"),
             builds("pq", 4), builds("dpq", 4)],
            [rnd("both", "iter", 15000, 80, exclude=NOT_ITERMUT, boost="popif:4"), builds("dpq", 6)]),
    ),
    "C09": dict(
        theorems=None, drop=["t", "hq"],
        gens=tiers(
            [rnd("both", "iter", 5000, 40, exclude=NOT_ITERMUT, boost="itermut:2")],
            [rnd("both", "iter", 40000, 60, exclude=NOT_ITERMUT, boost="itermut:2")]),
    ),
    "C10": dict(
        theorems=None, mode="faults", impl_search=pqv_bign.chain(pqv_bign.hash_fuse_search, pqv_bign.drops_search),
        gens=tiers(
            [rnd("both", "fuse", 3000, 50)],
            [rnd("both", "fuse", 30000, 60)]),
    ),
    "C11": dict(
        theorems=None, impl_search=pqv_bign.huge("both", "incdec,ops,order,extreme,content"), drop=["t"],
        gens=tiers(
            [rnd("both", "core", 4000, 60, boost="pushinc:5,pushdec:5"), builds("pq", 5), builds("dpq", 5),
             # deep heaps: the direction-limited pushes at every level of 16..200-element queues
             rnd("both", "core", 600, 300, keys=64, boost="pushinc:8,pushdec:8"),
             rnd("both", "core", 200, 600, keys=200, prios="wide", boost="pushinc:8,pushdec:8")],
            [rnd("both", "core", 30000, 80, boost="pushinc:5,pushdec:5"), builds("pq", 6), builds("dpq", 6)]),
    ),
    "C12": dict(
        theorems=None, impl_search=pqv_bign.borrow_search, drop=["t", "hq"],
        gens=tiers(
            [rnd("both", "core", 3000, 60, boost="peekmut:4,getmut:4,get:3"),
             # items whose Hash is coarser than their Eq: the element addressed is decided by Eq
             rnd("both", "core", 1000, 60, hashmode=1, boost="peekmut:2,getmut:5,get:3,chg:3,chgby:3"),
             rnd("both", "iter", 1500, 50, exclude=NOT_ITERMUT),
             rnd("both", "bulk", 1000, 50, exclude="serde,deser,eq,extend,fromiter"),
             pygen("boundary_items", 10)],
            [rnd("both", "all", 30000, 80, exclude="extend,fromiter"), pygen("boundary_items", 11)]),
    ),
    "C13": dict(
        theorems=None, drop=["t", "hq"],
        gens=tiers(
            [rnd("both", "iter", 5000, 40, exclude="itermut"),
             # the contracts hold of whatever state a caught panic leaves behind, too
             rnd("both", "fuse", 1500, 50, exclude="itermut", boost="iter:3,intoiter:3,drain:3,sortediter:3")],
            [rnd("both", "iter", 40000, 60, exclude="itermut"), rnd("both", "fuse", 10000, 60, exclude="itermut")]),
    ),
    "C14": dict(
        theorems=None, drop=["t", "hq"],
        gens=tiers(
            [rnd("both", "bulk", 4000, 50, exclude="serde,deser,retain,retainmut,sortedvec,intovec", boost="eq:6,clone:4"),
             pygen("eq_twins", 6000),
             # equality and clones of queues in every reachable condition (leaked iter_mut, caught panics, ...)
             rnd("both", "all", 1500, 50, exclude="serde,deser", boost="eq:8,clone:8,itermut:3"),
             rnd("both", "fuse", 800, 50, boost="eq:8,clone:8")],
            [rnd("both", "bulk", 30000, 80, exclude="serde,deser", boost="eq:6,clone:4"), pygen("eq_twins", 60000)]),
    ),
    "C15": dict(
        theorems=None, impl_search=pqv_bign.chain(pqv_bign.zst_search, pqv_bign.huge("both", "serde")), drop=["t"],
        gens=tiers(
            [rnd("both", "bulk", 4000, 50, exclude="retain,retainmut,sortedvec,intovec,append,extend,fromiter,fromvec", boost="serde:6,deser:6"),
             pygen("big_serde", 2)],
            [rnd("both", "bulk", 30000, 80, boost="serde:6,deser:6"), pygen("big_serde", 4)]),
    ),
    "C16": dict(
        theorems=None, impl_search=pqv_bign.chain(pqv_bign.huge("both", "reuse"), pqv_bign.drops_search), drop=["t"],
        gens=tiers(
            [rnd("both", "iter", 4000, 50, exclude="itermut,iter,intoiter,sortediter", boost="drain:6,clear:20"),
             # large capacities / large queues: clear and drain must not depend on them
             rnd("both", "all", 1500, 60, exclude="itermut,iter,intoiter,sortediter,serde,deser", boost="clear:25,drain:10,withcap:12,reserve:4"),
             rnd("both", "core", 150, 500, keys=400, prios="wide", boost="clear:30"), pygen("big_clear", 2)],
            [rnd("both", "iter", 30000, 80, exclude="itermut", boost="drain:6,clear:20")]),
    ),
    "C17": dict(
        theorems=None, impl_search=pqv_bign.zst_cap_search, drop=["t"],
        gens=tiers(
            [rnd("both", "cap", 4000, 60),
             # capacity operations interleaved with everything else (append, extend, conversions, ...)
             rnd("both", "all", 3000, 60, boost="reserve:6,reservex:6,tryreserve:6,tryreservex:6,shrink:8,withcap:8,capacity:3,append:5")],
            [rnd("both", "cap", 30000, 80)]),
    ),
    "C18": dict(
        theorems=None, drop=["t", "hq"], same_seed=True,
        gens=tiers(
            [rnd("both", "all", 1000, 60, hashmode=m) for m in (0, 1, 2, 3, 4)],
            [rnd("both", "all", 8000, 80, hashmode=m) for m in (0, 1, 2, 3, 4)]),
    ),
}

for _p, _d in PROPS.items():
    _d["theorem_specs"] = theorems_of(_p)
    _d["theorems"] = [t["name"] for t in _d["theorem_specs"]]
